// Package core is the part of the verification machinery shared by every check: evidence files,
// known-findings matching, violation/replay artefacts, exit codes, process sharding and the
// deviation-bounded explorer.
package core

import (
	"bufio"
	"crypto/sha1"
	"encoding/hex"
	"encoding/json"
	"fmt"
	"os"
	"path/filepath"
	"sort"
	"strconv"
	"strings"
	"sync"
	"time"
)

const (
	VerifDir       = "/verif"
	KnownFindings  = VerifDir + "/known-findings.jsonl"
	EvidenceDir    = VerifDir + "/evidence"
	ReplayDir      = VerifDir + "/replays"
	ExitHeld       = 0
	ExitViolation  = 1
	ExitHarnessErr = 2
)

// Tier returns "quick" or "thorough" (env VERIF_TIER, default quick).
func Tier() string {
	if t := os.Getenv("VERIF_TIER"); t == "thorough" {
		return "thorough"
	}
	return "quick"
}

func Thorough() bool { return Tier() == "thorough" }

// Seed returns VERIF_SEED (0 if unset). Checks are exhaustive; the seed only rotates shard order.
func Seed() int64 {
	n, _ := strconv.ParseInt(os.Getenv("VERIF_SEED"), 10, 64)
	return n
}

// Violation is one failing case. Key is the finding discriminator (oracle id + cause class), the
// thing known-findings.jsonl is matched on; Desc is human text; Replay is whatever is needed to
// re-run the case without the search.
type Violation struct {
	Key    string `json:"key"`
	Desc   string `json:"desc"`
	Replay any    `json:"replay,omitempty"`
	Count  int    `json:"count"`
}

// Report accumulates coverage counters and violations of one check run and writes the evidence file.
type Report struct {
	mu          sync.Mutex
	Prop        string
	Check       string
	Level       string
	start       time.Time
	Evaluations int64
	Distinct    int64
	States      int64
	Transitions int64
	TracesImpl  int64
	Rule        string
	Explanation string
	Samples     []any
	Extra       map[string]any
	Assumptions []string
	Exhaustive  bool
	Caps        []string
	vacuous     string
	viol        map[string]*Violation
	order       []string
	distinct    map[string]struct{}
}

func NewReport(prop, check, level string) *Report {
	return &Report{Prop: prop, Check: check, Level: level, start: time.Now(), Extra: map[string]any{},
		viol: map[string]*Violation{}, distinct: map[string]struct{}{}, Exhaustive: true}
}

// Sample records up to max sample cases.
func (r *Report) Sample(max int, s any) {
	r.mu.Lock()
	defer r.mu.Unlock()
	if len(r.Samples) < max {
		r.Samples = append(r.Samples, s)
	}
}

// CountDistinct registers a distinct non-trivial case class; Distinct is the size of the set.
func (r *Report) CountDistinct(class string) {
	r.mu.Lock()
	r.distinct[class] = struct{}{}
	r.mu.Unlock()
}

func (r *Report) Eval(n int64) {
	r.mu.Lock()
	r.Evaluations += n
	r.mu.Unlock()
}

func (r *Report) Cap(what string) {
	r.mu.Lock()
	r.Exhaustive = false
	r.Caps = append(r.Caps, what)
	r.mu.Unlock()
}

func (r *Report) Add(key string, n int64) {
	r.mu.Lock()
	v, _ := r.Extra[key].(int64)
	r.Extra[key] = v + n
	r.mu.Unlock()
}

// Violate records a violation; violations with the same key collapse (first replay kept).
func (r *Report) Violate(key, desc string, replay any) {
	r.mu.Lock()
	defer r.mu.Unlock()
	if v, ok := r.viol[key]; ok {
		v.Count++
		return
	}
	r.viol[key] = &Violation{Key: key, Desc: desc, Replay: replay, Count: 1}
	r.order = append(r.order, key)
}

// Vacuous records that a coverage guard failed (a counter that must be non-zero is zero). Finish turns it
// into a harness error (exit 2) unless the run found a violation: a defect that makes the exercised path
// unreachable must be reported as the violation it is, not as a broken check.
func (r *Report) Vacuous(format string, a ...any) {
	r.mu.Lock()
	if r.vacuous == "" {
		r.vacuous = fmt.Sprintf(format, a...)
	}
	r.mu.Unlock()
}

func (r *Report) NumViolations() int { r.mu.Lock(); defer r.mu.Unlock(); return len(r.viol) }

type finding struct {
	Property string `json:"property"`
	Key      string `json:"key"`
	Status   string `json:"status"` // "known" or "fixed"
	Desc     string `json:"desc"`
	Commit   string `json:"commit,omitempty"`
}

func loadFindings() map[string]finding {
	m := map[string]finding{}
	f, err := os.Open(KnownFindings)
	if err != nil {
		return m
	}
	defer f.Close()
	sc := bufio.NewScanner(f)
	sc.Buffer(make([]byte, 1<<20), 1<<20)
	for sc.Scan() {
		line := strings.TrimSpace(sc.Text())
		if line == "" || strings.HasPrefix(line, "#") {
			continue
		}
		var fd finding
		if json.Unmarshal([]byte(line), &fd) == nil && fd.Status == "known" {
			m[fd.Property+"\x00"+fd.Key] = fd
		}
	}
	return m
}

// HarnessError aborts the check with exit code 2 (never a VIOLATION line).
func HarnessError(format string, a ...any) {
	fmt.Printf("HARNESS-ERROR: "+format+"\n", a...)
	os.Exit(ExitHarnessErr)
}

// Finish writes the evidence file and replay artefacts, prints KNOWN-FINDING / VIOLATION lines and
// exits with the contract's exit code.
func (r *Report) Finish() {
	r.mu.Lock()
	defer r.mu.Unlock()
	known := loadFindings()
	var newViol []*Violation
	var knownHit []*Violation
	for _, k := range r.order {
		v := r.viol[k]
		if _, ok := known[r.Prop+"\x00"+v.Key]; ok {
			knownHit = append(knownHit, v)
		} else {
			newViol = append(newViol, v)
		}
	}
	if r.vacuous != "" {
		if len(newViol) == 0 {
			HarnessError("%s", r.vacuous)
		}
		r.Exhaustive = false
		r.Caps = append(r.Caps, "coverage guard not met in a run that found violations: "+r.vacuous)
	}
	if int64(len(r.distinct)) > r.Distinct {
		r.Distinct = int64(len(r.distinct))
	}
	cov := map[string]any{
		"evaluations":         r.Evaluations,
		"distinct_nontrivial": r.Distinct,
		"rule":                r.Rule,
		"samples":             r.Samples,
		"exhaustive":          r.Exhaustive,
		"check":               r.Check,
	}
	if r.States > 0 {
		cov["states"] = r.States
		cov["transitions"] = r.Transitions
		cov["traces_validated_against_impl"] = r.TracesImpl
	}
	if r.Explanation != "" {
		cov["explanation"] = r.Explanation
	}
	if len(r.Caps) > 0 {
		cov["caps_hit"] = r.Caps
	}
	keys := make([]string, 0, len(r.Extra))
	for k := range r.Extra {
		keys = append(keys, k)
	}
	sort.Strings(keys)
	for _, k := range keys {
		cov[k] = r.Extra[k]
	}
	if len(knownHit) > 0 {
		var ks []string
		for _, v := range knownHit {
			ks = append(ks, v.Key)
		}
		cov["known_findings_hit"] = ks
	}
	if len(r.Samples) == 0 {
		cov["samples"] = []any{"(no sample recorded)"}
	}
	ev := map[string]any{
		"property_id": r.Prop,
		"tier":        Tier(),
		"seed":        Seed(),
		"level":       r.Level,
		"coverage":    cov,
		"assumptions": r.Assumptions,
		"wall_s":      time.Since(r.start).Seconds(),
		"violations":  len(newViol),
	}
	os.MkdirAll(EvidenceDir, 0o755)
	b, _ := json.MarshalIndent(ev, "", " ")
	evPath := filepath.Join(EvidenceDir, r.Prop+".json")
	if p := os.Getenv("VERIF_EVIDENCE_PART"); p != "" {
		evPath = p // multi-part checks: vcheck merges the parts
	}
	if err := os.WriteFile(evPath, b, 0o644); err != nil {
		HarnessError("cannot write evidence: %v", err)
	}
	for _, v := range knownHit {
		fmt.Printf("KNOWN-FINDING: property=%s %s (%s; %d cases)\n", r.Prop, v.Key, oneLine(v.Desc), v.Count)
	}
	for _, v := range newViol {
		path := writeReplay(r.Prop, r.Check, v)
		fmt.Printf("VIOLATION property=%s replay=%s\n", r.Prop, path)
		fmt.Printf("  key=%s cases=%d\n  %s\n", v.Key, v.Count, v.Desc)
	}
	fmt.Printf("%s/%s %s: evaluations=%d distinct=%d states=%d transitions=%d exhaustive=%v violations=%d known=%d wall=%.1fs\n",
		r.Prop, r.Check, Tier(), r.Evaluations, r.Distinct, r.States, r.Transitions, r.Exhaustive, len(newViol), len(knownHit), time.Since(r.start).Seconds())
	if len(newViol) > 0 {
		os.Exit(ExitViolation)
	}
	os.Exit(ExitHeld)
}

func oneLine(s string) string {
	s = strings.ReplaceAll(s, "\n", " | ")
	if len(s) > 300 {
		s = s[:300] + "..."
	}
	return s
}

func writeReplay(prop, check string, v *Violation) string {
	h := sha1.Sum([]byte(v.Key))
	base := ReplayDir
	if d := os.Getenv("VERIF_REPLAY_DIR"); d != "" {
		base = d // scratch runs against seeded changes keep their artefacts out of /verif/replays
	}
	dir := filepath.Join(base, prop)
	os.MkdirAll(dir, 0o755)
	path := filepath.Join(dir, check+"-"+hex.EncodeToString(h[:6])+".json")
	b, _ := json.MarshalIndent(map[string]any{"property": prop, "check": check, "key": v.Key, "desc": v.Desc, "replay": v.Replay}, "", " ")
	os.WriteFile(path, b, 0o644)
	return path
}

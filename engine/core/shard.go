package core

import (
	"bufio"
	"bytes"
	"encoding/json"
	"fmt"
	"os"
	"os/exec"
	"path/filepath"
	"runtime"
	"strings"
	"sync"
	"time"
)

// Job/Result travel between coordinator and worker subprocesses as JSON lines.
type Job struct {
	ID   int             `json:"id"`
	Data json.RawMessage `json:"data"`
}

type Result struct {
	ID    int             `json:"id"`
	Data  json.RawMessage `json:"data,omitempty"`
	Crash string          `json:"crash,omitempty"` // worker process died (or recovered a panic) while running this job
	Hang  bool            `json:"hang,omitempty"`  // worker exceeded its per-job wall budget (not a verdict; reported as a cap)
}

// IsWorker reports whether this process is a shard worker.
func IsWorker() bool { return os.Getenv("VERIF_WORKER_JOBS") != "" }

// WorkerMain runs the jobs given to this worker process. fn may call ExitCrash to report a recovered
// in-process panic (the process then exits and the coordinator respawns a worker for the rest).
func WorkerMain(fn func(job Job) json.RawMessage) {
	jobsPath := os.Getenv("VERIF_WORKER_JOBS")
	outPath := os.Getenv("VERIF_WORKER_OUT")
	jf, err := os.Open(jobsPath)
	if err != nil {
		HarnessError("worker: %v", err)
	}
	out, err := os.OpenFile(outPath, os.O_APPEND|os.O_CREATE|os.O_WRONLY, 0o644)
	if err != nil {
		HarnessError("worker: %v", err)
	}
	workerOut = out
	sc := bufio.NewScanner(jf)
	sc.Buffer(make([]byte, 1<<24), 1<<24)
	for sc.Scan() {
		var j Job
		if err := json.Unmarshal(sc.Bytes(), &j); err != nil {
			HarnessError("worker: bad job: %v", err)
		}
		fmt.Fprintf(out, "BEGIN %d\n", j.ID)
		currentJob = j.ID
		data := fn(j)
		b, _ := json.Marshal(Result{ID: j.ID, Data: data})
		fmt.Fprintf(out, "END %s\n", b)
	}
	out.Close()
	os.Exit(0)
}

var (
	workerOut  *os.File
	currentJob int
)

// ExitCrash is called by a worker that observed a crash/hang of the system under test from which the
// process cannot continue (poisoned bubble). It records the result for the current job and exits.
func ExitCrash(data json.RawMessage) {
	b, _ := json.Marshal(Result{ID: currentJob, Data: data})
	fmt.Fprintf(workerOut, "END %s\n", b)
	workerOut.Close()
	os.Exit(3)
}

// Parallelism is the number of worker processes.
func Parallelism() int {
	n := runtime.NumCPU()
	if n > 16 {
		n = 16
	}
	if n < 1 {
		n = 1
	}
	return n
}

// RunSharded distributes jobs over worker subprocesses of this same test binary (testName is the
// -test.run pattern that re-enters the same test in worker mode) and returns one Result per job.
// A worker that dies is charged to the job it had announced; remaining jobs are re-queued.
// perJob is the wall budget per job used to bound a wedged worker (result Hang=true; never a verdict).
func RunSharded(testName string, jobs []Job, perJob time.Duration, extraEnv ...string) []Result {
	tmp, err := os.MkdirTemp(os.Getenv("VERIF_TMP"), "shard")
	if err != nil {
		HarnessError("mktemp: %v", err)
	}
	defer os.RemoveAll(tmp)
	n := Parallelism()
	results := make([]Result, 0, len(jobs))
	var mu sync.Mutex
	// dynamic chunking: small chunks so that a slow subtree does not serialise the run
	chunk := len(jobs)/(n*8) + 1
	if chunk > 64 {
		chunk = 64
	}
	queue := make(chan []Job, len(jobs)/chunk+2)
	rot := int(Seed()) % (len(jobs) + 1)
	rj := append(append([]Job{}, jobs[rot:]...), jobs[:rot]...)
	for i := 0; i < len(rj); i += chunk {
		e := i + chunk
		if e > len(rj) {
			e = len(rj)
		}
		queue <- rj[i:e]
	}
	close(queue)
	var wg sync.WaitGroup
	for w := 0; w < n; w++ {
		wg.Add(1)
		go func(w int) {
			defer wg.Done()
			seq := 0
			for batch := range queue {
				pending := batch
				for len(pending) > 0 {
					seq++
					jp := filepath.Join(tmp, fmt.Sprintf("j%d_%d", w, seq))
					op := filepath.Join(tmp, fmt.Sprintf("o%d_%d", w, seq))
					var jb bytes.Buffer
					for _, j := range pending {
						b, _ := json.Marshal(j)
						jb.Write(b)
						jb.WriteByte('\n')
					}
					os.WriteFile(jp, jb.Bytes(), 0o644)
					cmd := exec.Command(os.Args[0], "-test.run", "^"+testName+"$", "-test.timeout", "0")
					cmd.Env = append(os.Environ(), "VERIF_WORKER_JOBS="+jp, "VERIF_WORKER_OUT="+op, "GOMAXPROCS=1", "GODEBUG=asyncpreemptoff=1", "GOTRACEBACK=all")
					cmd.Env = append(cmd.Env, extraEnv...)
					var stderr bytes.Buffer
					cmd.Stderr = &stderr
					cmd.Stdout = &stderr
					done := make(chan error, 1)
					if err := cmd.Start(); err != nil {
						HarnessError("spawn worker: %v", err)
					}
					go func() { done <- cmd.Wait() }()
					budget := perJob*time.Duration(len(pending)) + 30*time.Second
					timedOut := false
					select {
					case <-done:
					case <-time.After(budget):
						timedOut = true
						cmd.Process.Kill()
						<-done
					}
					got, begun := parseWorkerOut(op)
					mu.Lock()
					results = append(results, got...)
					mu.Unlock()
					doneIDs := map[int]bool{}
					for _, r := range got {
						doneIDs[r.ID] = true
					}
					var rest []Job
					for _, j := range pending {
						if doneIDs[j.ID] {
							continue
						}
						if j.ID == begun && begun >= 0 {
							r := Result{ID: j.ID}
							if timedOut {
								r.Hang = true
							} else {
								r.Crash = tail(stderr.String(), 6000)
							}
							mu.Lock()
							results = append(results, r)
							mu.Unlock()
							continue
						}
						rest = append(rest, j)
					}
					if len(rest) == len(pending) {
						// worker made no progress at all: harness problem, not a verdict
						HarnessError("worker made no progress: %s", tail(stderr.String(), 3000))
					}
					pending = rest
					os.Remove(jp)
					os.Remove(op)
				}
			}
		}(w)
	}
	wg.Wait()
	return results
}

func parseWorkerOut(path string) (res []Result, begun int) {
	begun = -1
	f, err := os.Open(path)
	if err != nil {
		return nil, -1
	}
	defer f.Close()
	sc := bufio.NewScanner(f)
	sc.Buffer(make([]byte, 1<<26), 1<<26)
	for sc.Scan() {
		line := sc.Text()
		if strings.HasPrefix(line, "BEGIN ") {
			fmt.Sscanf(line, "BEGIN %d", &begun)
		} else if strings.HasPrefix(line, "END ") {
			var r Result
			if json.Unmarshal([]byte(line[4:]), &r) == nil {
				res = append(res, r)
				if r.ID == begun {
					begun = -1
				}
			}
		}
	}
	return
}

func tail(s string, n int) string {
	if len(s) > n {
		return s[len(s)-n:]
	}
	return s
}

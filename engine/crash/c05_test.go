//go:build verif

// Package crash is engine E5 (crashlab): crash-point enumeration on top of looplab. A download history is
// executed once with a recording storage and a recording bbolt (patched module copy: every page write,
// fdatasync and file growth is reported). For every prefix of the merged log, every torn variant of the
// last data write and every subset of database writes not yet covered by an fdatasync, the two images are
// rebuilt and a fresh session is opened on them and driven to idle.
package crash

import (
	"bytes"
	"encoding/base64"
	"encoding/json"
	"fmt"
	"os"
	"path/filepath"
	"sort"
	"testing"

	"github.com/cenkalti/rain/v2/zzverif/core"
	"github.com/cenkalti/rain/v2/zzverif/lab"
	"go.etcd.io/bbolt"
)

// ---- recording

type ev struct {
	Kind string // dbwrite dbsync dbtrunc data
	Off  int64
	Data []byte
	File string
	Note string
}

type recording struct {
	G       *lab.GenTorrent
	TorID   string
	Events  []ev
	Labels  []string
	DBPath  string
	NumData int
}

type recArg struct {
	History int `json:"history"`
}

var rec *recording

// histories: positions of the persistence-relevant actions inside a 4-piece download.
// each entry: after how many completed pieces the action happens
type histAction struct {
	AfterPieces int
	What        string // tick | stop-start | verify | write-fail-<n>
}

var histories = [][]histAction{
	{},
	{{1, "tick"}},
	{{2, "tick"}, {3, "tick"}},
	{{1, "stop-start"}},
	{{2, "stop-start"}, {3, "tick"}},
	{{4, "tick"}},
	{{4, "stop-start"}},
	{{2, "verify"}},
	{{1, "tick"}, {2, "stop-start"}},
	{{3, "stop-start"}, {4, "tick"}},
	{{1, "write-fail-1"}},                // the next file write fails (disk full): the torrent stops with the error, is started again
	{{1, "write-fail-2"}, {3, "tick"}},   // the second file write from there fails (a piece spanning two files is half written)
	{{2, "write-fail-1"}, {2, "tick"}},
}

func c05Layout() lab.Layout { return lab.LayoutMulti(32768, 50000, 70000) } // 2 files, 4 pieces

func init() {
	lab.Register("c05rec", mkRecord)
	lab.Register("c05recover", mkRecover)
}

func mkRecord() *lab.Scenario {
	sc := &lab.Scenario{Name: "c05rec", Horizon: 600}
	var arg recArg
	var p1 *lab.Peer
	done := map[int]bool{}
	sc.Setup = func(w *lab.World) {
		json.Unmarshal(w.Arg, &arg)
		g := lab.Gen(c05Layout())
		rec = &recording{G: g, DBPath: w.Cfg.Database}
		bbolt.VerifHook = func(path, kind string, off int64, b []byte) {
			if path != rec.DBPath {
				return
			}
			rec.Events = append(rec.Events, ev{Kind: "db" + kind, Off: off, Data: append([]byte{}, b...), Note: fmt.Sprint(w.Store.LogLen())})
		}
		w.OpenSession()
		w.AddTorrent(g, nil)
		rec.TorID = w.Tor.ID()
		p1 = w.NewPeer("p1", "10.0.0.1", 5001)
		hist := histories[arg.History]
		o := &lab.StdOpts{Behaviour: map[string]*lab.PeerBehaviour{"p1": {Honest: true}}}
		o.Script = []*lab.ScriptItem{
			{Label: "start", Do: func(w *lab.World) { w.CmdStart() }},
			{Label: "connect p1", When: func(w *lab.World) bool { return w.Listening() }, Do: func(w *lab.World) { p1.ConnectIn(w.Tor.VerifState().Port, g.InfoHash) }},
		}
		w.Vars["std"] = o
		w.Vars["hist"] = hist
	}
	have := func(w *lab.World) int {
		n := 0
		for _, d := range w.Tor.VerifState().PieceDone {
			if d {
				n++
			}
		}
		s := w.Tor.VerifState()
		if s.HasBitfield && len(s.PieceDone) == 0 {
			for _, b := range s.Bitfield {
				for ; b != 0; b &= b - 1 {
					n++
				}
			}
		}
		return n
	}
	sc.Actions = func(w *lab.World) []lab.Action {
		hist := w.Vars["hist"].([]histAction)
		// persistence actions are injected as soon as their piece count is reached (before anything else)
		for i, h := range hist {
			if done[i] || have(w) < h.AfterPieces {
				continue
			}
			i, h := i, h
			switch h.What {
			case "tick":
				return []lab.Action{{Label: "resume-tick", Do: func(w *lab.World) { done[i] = true; w.S.VerifUpdateStats() }}}
			case "stop-start":
				return []lab.Action{{Label: "stop+start", Do: func(w *lab.World) {
					done[i] = true
					w.CmdStop()
					w.DrainDefault(200)
					w.CmdStart()
					w.DrainDefault(50)
					if w.Listening() && !p1.Connected() {
						p1.ConnectIn(w.Tor.VerifState().Port, w.G.InfoHash)
					}
				}}}
			case "write-fail-1", "write-fail-2":
				return []lab.Action{{Label: h.What, Do: func(w *lab.World) {
					done[i] = true
					w.Store.FailWriteIn = int(h.What[len(h.What)-1] - '0')
					w.Vars["writefail"] = true
				}}}
			case "verify":
				return []lab.Action{{Label: "verify+start", Do: func(w *lab.World) {
					done[i] = true
					w.CmdVerify()
					w.DrainDefault(300)
					w.CmdStart()
					w.DrainDefault(50)
					if w.Listening() && !p1.Connected() {
						p1.ConnectIn(w.Tor.VerifState().Port, w.G.InfoHash)
					}
				}}}
			}
		}
		acts := lab.StdActions(w)
		if len(acts) > 1 {
			acts = acts[:1]
		}
		if s := w.Tor.VerifState(); len(acts) == 0 && w.Vars["writefail"] != nil && s.Status == "Stopped" && s.LastError != "" && !s.Completed {
			// the torrent stopped on the injected write error: the user starts it again
			return []lab.Action{{Label: "start after write error", Do: func(w *lab.World) {
				delete(w.Vars, "writefail")
				w.CmdStart()
				w.DrainDefault(50)
				if w.Listening() && !p1.Connected() {
					p1.ConnectIn(w.Tor.VerifState().Port, w.G.InfoHash)
				}
			}}}
		}
		if len(acts) == 0 && w.Listening() && !p1.Connected() && !w.Tor.VerifState().Completed {
			return []lab.Action{{Label: "reconnect p1", Do: func(w *lab.World) { p1.ConnectIn(w.Tor.VerifState().Port, w.G.InfoHash) }}}
		}
		return acts
	}
	sc.Final = func(w *lab.World) {
		// merge: data writes are in the storage log; db events carry the storage log length at their instant
		ops := w.Store.OpsSince(0)
		var merged []ev
		di := 0
		for _, e := range rec.Events {
			var n int
			fmt.Sscan(e.Note, &n)
			for ; di < n; di++ {
				if ops[di].Kind == "write" && ops[di].Err == "" && ops[di].Tor == rec.TorID {
					merged = append(merged, ev{Kind: "data", File: ops[di].File, Off: ops[di].Off, Data: ops[di].Data})
				}
			}
			merged = append(merged, e)
		}
		for ; di < len(ops); di++ {
			if ops[di].Kind == "write" && ops[di].Err == "" && ops[di].Tor == rec.TorID {
				merged = append(merged, ev{Kind: "data", File: ops[di].File, Off: ops[di].Off, Data: ops[di].Data})
			}
		}
		rec.Events = merged
		rec.Labels = w.Labels
		if s := w.Tor.VerifState(); s.Status != "Seeding" {
			core.HarnessError("c05 recording history %d did not complete: %+v", arg.History, s)
		}
		bbolt.VerifHook = nil
	}
	return sc
}

// ---- recovery

type recoverArg struct {
	DB      string            `json:"db"`    // base64 of the database image
	Files   map[string]string `json:"files"` // storage image (base64), absent = file does not exist
	TorID   string            `json:"id"`
	Resume  bool              `json:"resume"` // ResumeOnStartup
	Interrupt bool            `json:"interrupt"` // the recovery itself is interrupted: Stop while the allocator is at its first file, then Start again
	Desc    string            `json:"desc"`
}

func mkRecover() *lab.Scenario {
	sc := &lab.Scenario{Name: "c05recover", Horizon: 400}
	var arg recoverArg
	var g *lab.GenTorrent
	sc.Setup = func(w *lab.World) {
		json.Unmarshal(w.Arg, &arg)
		g = lab.Gen(c05Layout())
		w.G = g
		db, _ := base64.StdEncoding.DecodeString(arg.DB)
		os.MkdirAll(filepath.Dir(w.Cfg.Database), 0o755)
		if err := os.WriteFile(w.Cfg.Database, db, 0o644); err != nil {
			core.HarnessError("write db image: %v", err)
		}
		w.Store.GetStorage(arg.TorID)
		w.Store.Mutate(arg.TorID, func(files map[string]*lab.MemFile) {
			for n, b64 := range arg.Files {
				d, _ := base64.StdEncoding.DecodeString(b64)
				files[n] = &lab.MemFile{Name: n, Data: d}
			}
		})
		w.Cfg.ResumeOnStartup = arg.Resume
		w.Vars["std"] = &lab.StdOpts{Behaviour: map[string]*lab.PeerBehaviour{}}
		if err := w.TryOpenSession(); err != nil {
			w.Failf("C05.db-does-not-reopen", "the resume database image does not reopen: %v (%s)", err, arg.Desc)
			return
		}
		w.AdoptLoadedTorrents()
	}
	correct := func(w *lab.World, i int) bool { return w.PieceOnDisk(i) }
	claims := func(w *lab.World, where string) {
		if w.Tor == nil {
			return
		}
		s := w.Tor.VerifState()
		if !s.HasBitfield {
			return
		}
		for i := 0; i < g.NumPieces && i/8 < len(s.Bitfield); i++ {
			if s.Bitfield[i/8]&(0x80>>(i%8)) != 0 {
				w.Count("claims_checked", 1)
				if !correct(w, i) {
					if w.AllFilesPresent() || where != "loaded" {
						w.Failf("C05.claim-ahead-of-disk."+where, "after the crash the client treats piece %d as downloaded (%s, status %s) but its verified content is not in the files (%s)", i, where, s.Status, arg.Desc)
					}
				}
			}
		}
	}
	started := false
	ticked := false
	phase := 0
	sc.Actions = func(w *lab.World) []lab.Action {
		if w.Tor == nil {
			return nil
		}
		if started && !ticked && w.Tor.VerifState().HasVerifier {
			// the periodic resume write falls into the re-verification
			ticked = true
			return []lab.Action{{Label: "resume tick during verification", Do: func(w *lab.World) { w.S.VerifUpdateStats(); w.Count("ticks_during_verification", 1) }}}
		}
		acts := lab.StdActions(w)
		if len(acts) > 0 {
			return acts[:1]
		}
		if !started {
			started = true
			claims(w, "loaded")
			if arg.Interrupt {
				// the allocator is held at its first Open until the torrent has been told to stop
				w.Store.GateOpens = true
				w.Vars["std"].(*lab.StdOpts).HoldStorage = true
				phase = 1
			}
			return []lab.Action{{Label: "start", Do: func(w *lab.World) { w.CmdStart() }}}
		}
		switch phase {
		case 1:
			phase = 2
			return []lab.Action{{Label: "stop during allocation", Do: func(w *lab.World) { w.CmdStop() }}}
		case 2:
			phase = 3
			return []lab.Action{{Label: "storage goes on", Do: func(w *lab.World) {
				w.Store.GateOpens = false
				w.Vars["std"].(*lab.StdOpts).HoldStorage = false
				w.Store.ReleaseAll()
			}}}
		case 3:
			phase = 4
			w.Count("interrupted_recoveries", 1)
			return []lab.Action{{Label: "start again", Do: func(w *lab.World) { w.CmdStart() }}}
		}
		return nil
	}
	sc.Check = func(w *lab.World) {
		if w.Tor != nil {
			s := w.Tor.VerifState().Status
			if s == "Downloading" || s == "Seeding" { // before Start the client cannot know that files are gone
				claims(w, "running")
			}
			// "resume state on disk never claims more than the data on disk": once this run has looked at the files
			// (allocation is over), what the resume database says is compared with the files after every step
			if s == "Verifying" || s == "Downloading" || s == "Seeding" {
				if rb := w.S.VerifResumeBitfield(w.Tor.ID()); len(rb) > 0 {
					for i := 0; i < g.NumPieces && i/8 < len(rb); i++ {
						if rb[i/8]&(0x80>>(i%8)) != 0 {
							w.Count("resume_db_claims_checked", 1)
							if !correct(w, i) {
								w.Failf("C05.resume-db-ahead-of-disk", "the resume database claims piece %d while the torrent is %s, but its verified content is not in the files (%s)", i, s, arg.Desc)
							}
						}
					}
				}
			}
		}
	}
	sc.Final = func(w *lab.World) {
		if w.Tor != nil {
			if s := w.Tor.VerifState().Status; s == "Downloading" || s == "Seeding" {
				claims(w, "final")
			} else if started {
				w.Failf("C05.recovery-not-running."+s, "after restart and Start the torrent ended in status %s (error %q) (%s)", s, w.Tor.VerifState().LastError, arg.Desc)
			}
		}
		if w.Tor == nil {
			w.Count("recovered_without_torrent", 1)
		} else {
			w.Count("recovered_with_torrent", 1)
		}
	}
	sc.Outcome = func(w *lab.World) string {
		if w.Tor == nil {
			return "no-torrent"
		}
		s := w.Tor.VerifState()
		return fmt.Sprintf("%s/have=%x", s.Status, s.Bitfield)
	}
	return sc
}

// ---- image construction

type image struct {
	db    []byte
	files map[string][]byte
	desc  string
}

func buildImages(r *recording, thorough bool) []image {
	var out []image
	g := r.G
	// storage files exist (zero-filled, full size) from allocation on; before the first db/data event nothing exists
	fileSize := map[string]int{}
	for fi, f := range g.L.Files {
		if !f.Pad {
			fileSize[g.StoragePath(fi)] = f.Len
		}
	}
	type dbw struct {
		off  int64
		data []byte
	}
	var synced []dbw   // db writes covered by an fdatasync
	var pending []dbw  // writes since the last sync
	var dbSize int64
	files := map[string][]byte{}
	applyDB := func(ws []dbw, extra []dbw) []byte {
		sz := dbSize
		for _, x := range append(append([]dbw{}, ws...), extra...) {
			if e := x.off + int64(len(x.data)); e > sz {
				sz = e
			}
		}
		img := make([]byte, sz)
		for _, x := range ws {
			copy(img[x.off:], x.data)
		}
		for _, x := range extra {
			copy(img[x.off:], x.data)
		}
		return img
	}
	cloneFiles := func() map[string][]byte {
		m := map[string][]byte{}
		for k, v := range files {
			m[k] = append([]byte{}, v...)
		}
		return m
	}
	emit := func(desc string, fl map[string][]byte) {
		// every subset of the unsynced db writes may have reached the disk
		k := len(pending)
		if k > 4 {
			k = 4 // cap: only the last 4 unsynced writes are permuted, older ones are assumed persisted (reported as assumption)
		}
		base := append([]dbw{}, synced...)
		base = append(base, pending[:len(pending)-k]...)
		for mask := 0; mask < 1<<k; mask++ {
			var extra []dbw
			for b := 0; b < k; b++ {
				if mask&(1<<b) != 0 {
					extra = append(extra, pending[len(pending)-k+b])
				}
			}
			out = append(out, image{db: applyDB(base, extra), files: fl, desc: fmt.Sprintf("%s; unsynced db writes kept: %0*b of %d", desc, max(k, 1), mask, len(pending))})
		}
	}
	allocated := false
	for i, e := range r.Events {
		switch e.Kind {
		case "dbwrite":
			pending = append(pending, dbw{e.Off, e.Data})
		case "dbtruncate":
			if e.Off > dbSize {
				dbSize = e.Off
			}
		case "dbsync":
			synced = append(synced, pending...)
			pending = nil
		case "data":
			if !allocated {
				allocated = true
			}
			if _, ok := files[e.File]; !ok {
				files[e.File] = make([]byte, fileSize[e.File])
			}
			// torn variants of this write: first k bytes reached the disk
			cuts := []int{0, 1, len(e.Data) / 2, len(e.Data) - 1}
			if !thorough {
				cuts = []int{len(e.Data) / 2}
			}
			for _, k := range cuts {
				if k <= 0 || k >= len(e.Data) {
					continue
				}
				fl := cloneFiles()
				copy(fl[e.File][e.Off:], e.Data[:k])
				emit(fmt.Sprintf("crash during event %d: data write %s@%d torn after %d of %d bytes", i, e.File, e.Off, k, len(e.Data)), fl)
			}
			copy(files[e.File][e.Off:], e.Data)
		}
		// all files of the torrent exist (allocated, zero-filled) once the first data write happened; before that
		// they may or may not exist: model both for the first prefix only
		fl := cloneFiles()
		if allocated {
			for n, sz := range fileSize {
				if _, ok := fl[n]; !ok {
					fl[n] = make([]byte, sz)
				}
			}
		}
		emit(fmt.Sprintf("crash after event %d/%d (%s)", i, len(r.Events), e.Kind), fl)
	}
	return out
}

func TestC05(t *testing.T) {
	lab.ServeIfWorker(t)
	rep := core.NewReport("C05", "crashlab", "fault_enumeration")
	rep.Rule = "download histories of a 4-piece / 2-file torrent with resume ticks, stop+start, verify and failing file writes (disk full; also in the middle of a piece that spans two files) at enumerated positions; for every prefix of the merged log of {data write, db page write, db fdatasync, db growth}, every torn variant of the in-flight data write and every subset of db page writes not yet covered by an fdatasync: rebuild both images, open a fresh session (ResumeOnStartup off and on), start, drain; plus every subset of files deleted at restart, each also with the recovery itself interrupted (Stop while the allocator is at its first file, then Start again). Distinct = distinct (db image, storage image) pairs"
	rep.Assumptions = []string{"data files are durable at WriteAt return (O_SYNC, asserted on the real file storage)", "torn db page writes inside one page and reordering across an fdatasync are not modelled", "at most the last 4 unsynced db writes are permuted"}
	hs := []int{0, 1, 2, 3, 10, 11}
	if core.Thorough() {
		hs = nil
		for h := range histories {
			hs = append(hs, h)
		}
	}
	checkOSync(rep)
	var runs []lab.Run
	seen := map[string]bool{}
	var nImages int64
	for _, h := range hs {
		argb, _ := json.Marshal(recArg{History: h})
		res := lab.Exec(t, mkRecord(), argb, nil, nil)
		if len(res.Violations) > 0 {
			for _, v := range res.Violations {
				rep.Violate(v.Key, v.Desc, v.Replay)
			}
			continue
		}
		r := rec
		rep.Sample(6, map[string]any{"history": histories[h], "events": len(r.Events), "steps": len(r.Labels)})
		imgs := buildImages(r, core.Thorough())
		for _, im := range imgs {
			// deletion subsets at restart
			names := make([]string, 0, len(im.files))
			for n := range im.files {
				names = append(names, n)
			}
			sort.Strings(names)
			nsub := 1
			if len(names) > 0 {
				nsub = 1 << len(names)
			}
			for mask := 0; mask < nsub; mask++ {
				if mask != 0 && !core.Thorough() && mask != nsub-1 && mask != 1 {
					continue
				}
				fl := map[string]string{}
				var del []string
				for i, n := range names {
					if mask&(1<<i) != 0 {
						del = append(del, n)
						continue
					}
					fl[n] = base64.StdEncoding.EncodeToString(im.files[n])
				}
				key := string(im.db) + "\x00" + fmt.Sprint(del)
				for _, n := range names {
					key += "\x00" + n + string(im.files[n])
				}
				if seen[key] {
					continue
				}
				seen[key] = true
				desc := im.desc
				if len(del) > 0 {
					desc += fmt.Sprintf("; files deleted at restart: %v", del)
				}
				// ResumeOnStartup is left off: NewSession would call Start synchronously, which the
				// explorer-owned loop cannot serve; the explicit Start below takes the same code path.
				for _, resume := range []bool{false} {
					nImages++
					runs = append(runs, lab.Run{Scenario: "c05recover", Arg: recoverArg{DB: base64.StdEncoding.EncodeToString(im.db), Files: fl, TorID: r.TorID, Resume: resume, Desc: fmt.Sprintf("history %d: %s", h, desc)}, Budget: 0})
					if len(del) > 0 {
						// files are missing at restart: also the recovery that is itself interrupted
						runs = append(runs, lab.Run{Scenario: "c05recover", Arg: recoverArg{DB: base64.StdEncoding.EncodeToString(im.db), Files: fl, TorID: r.TorID, Resume: resume, Interrupt: true, Desc: fmt.Sprintf("history %d: %s; Stop while the allocator is at its first file, Start again", h, desc)}, Budget: 0})
					}
				}
			}
		}
	}
	rep.Extra["crash_images"] = nImages
	lab.Explore("TestC05", rep, runs)
	rep.Level = "fault_enumeration"
	rep.Distinct = int64(len(seen))
	if n, _ := rep.Extra["claims_checked"].(int64); n == 0 {
		rep.Vacuous("vacuous: no recovered session ever claimed a piece")
	}
	rep.Finish()
}

// checkOSync asserts, on the real file storage, that data files are opened with O_SYNC (the assumption
// "durable at WriteAt return" of the storage model).
func checkOSync(rep *core.Report) {
	dir, err := os.MkdirTemp(os.Getenv("VERIF_TMP"), "c05sync")
	if err != nil {
		core.HarnessError("%v", err)
	}
	defer os.RemoveAll(dir)
	flags, err := lab.RealStorageOpenFlags(dir)
	if err != nil {
		core.HarnessError("fdinfo: %v", err)
	}
	const oSync = 0o4010000
	if flags&oSync != oSync {
		rep.Violate("C05.data-files-not-osync", fmt.Sprintf("filestorage opens data files with flags %#o: O_SYNC is not set, so a piece write can be acknowledged (and its bit persisted) before the data is durable", flags), nil)
	}
	_ = bytes.Equal
}

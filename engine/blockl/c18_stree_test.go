//go:build verif

package blockl

import (
	"fmt"
	"math"
	"sort"
	"sync/atomic"

	"github.com/cenkalti/rain/v2/internal/blocklist/stree"
	"github.com/cenkalti/rain/v2/zzverif/core"
)

const latticeN = 7 // endpoints 0..6

type ivl struct{ f, t int } // lattice indices, f<=t

type valueMap struct {
	name    string
	vals    [latticeN]uint32
	queries []uint32
}

func mkValueMap(name string, vals [latticeN]uint32) valueMap {
	set := map[uint32]bool{}
	for i, v := range vals {
		set[v] = true
		if v > 0 {
			set[v-1] = true
		}
		if v < math.MaxUint32 {
			set[v+1] = true
		}
		if i+1 < latticeN && vals[i+1]-v >= 2 {
			set[v+(vals[i+1]-v)/2] = true // a point strictly inside every gap
		}
	}
	set[0] = true
	set[math.MaxUint32] = true
	m := valueMap{name: name, vals: vals}
	for q := range set {
		m.queries = append(m.queries, q)
	}
	sort.Slice(m.queries, func(i, j int) bool { return m.queries[i] < m.queries[j] })
	return m
}

func streePart(rep *core.Report, col *collector) {
	var all []ivl
	for f := 0; f < latticeN; f++ {
		for t := f; t < latticeN; t++ {
			all = append(all, ivl{f, t})
		}
	}
	// simplest first: shorter intervals first
	sort.SliceStable(all, func(i, j int) bool { return all[i].t-all[i].f < all[j].t-all[j].f })
	K := len(all) // 28
	maxN := 4
	if core.Thorough() {
		maxN = 5
	}
	maps := []valueMap{
		mkValueMap("dense", [latticeN]uint32{1, 2, 3, 4, 5, 6, 7}),
		mkValueMap("sparse", [latticeN]uint32{0, 1, 7, 8, 1 << 31, math.MaxUint32 - 1, math.MaxUint32}),
	}
	var nLists, nQueries, nHit, nMiss, nShared, nNested, nAdjacent, nDup int64
	distinctSets := make([]map[uint32]struct{}, core.Parallelism())
	for i := range distinctSets {
		distinctSets[i] = map[uint32]struct{}{}
	}
	for n := 0; n <= maxN; n++ {
		total := 1
		for i := 0; i < n; i++ {
			total *= K
		}
		chunks := 1
		per := total
		if n >= 2 {
			chunks = K * K
			per = total / chunks
		}
		parallelChunks(chunks, func(w, chunk int) {
			local := newCollector()
			var lLists, lQ, lHit, lMiss, lShared, lNested, lAdj, lDup int64
			list := make([]ivl, n)
			for k := 0; k < per; k++ {
				idx := chunk*per + k
				x := idx
				var mask uint32
				for i := n - 1; i >= 0; i-- { // most significant digit first => lexicographic order
					list[i] = all[x%K]
					mask |= 1 << uint(x%K)
					x /= K
				}
				lLists++
				distinctSets[w][mask] = struct{}{}
				// shape counters (non-vacuity)
				for i := 0; i < n; i++ {
					for j := i + 1; j < n; j++ {
						a, b := list[i], list[j]
						switch {
						case a == b:
							lDup++
						case a.t+1 == b.f || b.t+1 == a.f:
							lAdj++
						case a.t == b.f || b.t == a.f || a.f == b.f || a.t == b.t:
							lShared++
						case (a.f < b.f && b.t < a.t) || (b.f < a.f && a.t < b.t):
							lNested++
						}
					}
				}
				for mi := range maps {
					m := &maps[mi]
					checkStree(local, m, list, n, uint64(idx), &lQ, &lHit, &lMiss)
				}
			}
			col.merge(local)
			atomic.AddInt64(&nLists, lLists)
			atomic.AddInt64(&nQueries, lQ)
			atomic.AddInt64(&nHit, lHit)
			atomic.AddInt64(&nMiss, lMiss)
			atomic.AddInt64(&nShared, lShared)
			atomic.AddInt64(&nNested, lNested)
			atomic.AddInt64(&nAdjacent, lAdj)
			atomic.AddInt64(&nDup, lDup)
		})
	}
	sets := map[uint32]struct{}{}
	for _, s := range distinctSets {
		for k := range s {
			sets[k] = struct{}{}
		}
	}
	rep.Eval(nLists * int64(len(maps)))
	rep.Distinct += int64(len(sets)) * int64(len(maps))
	rep.Extra["stree_lists"] = nLists
	rep.Extra["stree_value_maps"] = int64(len(maps))
	rep.Extra["stree_distinct_interval_sets"] = int64(len(sets))
	rep.Extra["stree_queries"] = nQueries
	rep.Extra["stree_queries_inside"] = nHit
	rep.Extra["stree_queries_outside"] = nMiss
	rep.Extra["stree_pairs_shared_endpoint"] = nShared
	rep.Extra["stree_pairs_nested"] = nNested
	rep.Extra["stree_pairs_adjacent"] = nAdjacent
	rep.Extra["stree_pairs_duplicate"] = nDup
	rep.Extra["stree_bounds"] = fmt.Sprintf("<=%d intervals, %d lattice points, %d+%d query points", maxN, latticeN, len(maps[0].queries), len(maps[1].queries))
	rep.Sample(2, map[string]any{"part": "stree", "value_map": maps[1].name, "values": maps[1].vals, "queries": maps[1].queries})
	if nHit == 0 || nMiss == 0 || nShared == 0 || nNested == 0 || nAdjacent == 0 || nDup == 0 {
		rep.Vacuous("stree part vacuous: inside=%d outside=%d shared=%d nested=%d adjacent=%d dup=%d", nHit, nMiss, nShared, nNested, nAdjacent, nDup)
	}
}

// checkStree builds the tree exactly as blocklist.load does and compares every query with a linear scan.
func checkStree(col *collector, m *valueMap, list []ivl, n int, idx uint64, nQ, nHit, nMiss *int64) {
	describe := func(extra string) func() (string, any) {
		return func() (string, any) {
			var rs [][2]uint32
			for _, iv := range list {
				rs = append(rs, [2]uint32{m.vals[iv.f], m.vals[iv.t]})
			}
			return fmt.Sprintf("stree built from ranges %v (value map %s): %s", rs, m.name, extra), map[string]any{"ranges": rs, "map": m.name}
		}
	}
	defer func() {
		if r := recover(); r != nil {
			col.add("C18.stree.panic."+topFrame(), rankOf(1, n, idx), describe(fmt.Sprintf("panic: %v", r)))
		}
	}()
	var tree stree.Stree
	for _, iv := range list {
		tree.AddRange(stree.ValueType(m.vals[iv.f]), stree.ValueType(m.vals[iv.t]))
	}
	tree.Build()
	cp := tree // Blocklist stores a copy of the built tree (b.tree = *tree)
	for _, q := range m.queries {
		want := false
		onEnd := false
		near := false
		for _, iv := range list {
			lo, hi := m.vals[iv.f], m.vals[iv.t]
			if lo <= q && q <= hi {
				want = true
			}
			if q == lo || q == hi {
				onEnd = true
			}
			if (lo > 0 && q == lo-1) || (hi < math.MaxUint32 && q == hi+1) {
				near = true
			}
		}
		got := cp.Contains(stree.ValueType(q))
		*nQ++
		if want {
			*nHit++
		} else {
			*nMiss++
		}
		if got != want {
			q := q
			if want {
				cls := "interior"
				if onEnd {
					cls = "endpoint"
				}
				col.add("C18.stree.false-negative."+cls, rankOf(1, n, idx), describe(fmt.Sprintf("Contains(%d)=false but the value lies inside a range", q)))
			} else {
				cls := "far"
				if near {
					cls = "adjacent"
				}
				col.add("C18.stree.false-positive."+cls, rankOf(1, n, idx), describe(fmt.Sprintf("Contains(%d)=true but no range contains the value", q)))
			}
		}
	}
}

//go:build verif

// Package blockl: C18 (component level) — blocklist semantics are exact and the candidate address queue
// is a bounded priority set. Four bounded-exhaustive parts, each against its own boring reference:
//
//	stree      every interval list over a small endpoint lattice x every query point  vs linear scan
//	blocklist  every list of text lines / every Reload sequence x every query address  vs the definition
//	addrlist   every push/pop/reset sequence on the real AddrList                     vs a reference bounded priority set
//	resolver   every IP literal x port x list through resolver.Resolve                 vs the definition
//
// The session-level part of C18 (what is actually dialled) lives elsewhere.
package blockl

import (
	"fmt"
	"os"
	"runtime"
	"runtime/debug"
	"runtime/pprof"
	"sort"
	"strings"
	"sync"
	"testing"
	"time"

	"github.com/cenkalti/rain/v2/internal/logger"
	"github.com/cenkalti/rain/v2/zzverif/core"
)

// ---- violation collector: deterministic "simplest first" independent of worker scheduling.

type vrec struct {
	rank   uint64
	desc   string
	replay any
	count  int64
}

// collector keeps, per violation key, the failing case with the smallest rank and the number of cases.
type collector struct {
	mu sync.Mutex
	m  map[string]*vrec
}

func newCollector() *collector { return &collector{m: map[string]*vrec{}} }

// add registers one failing case. mk is only called when the case becomes the representative of its key.
func (c *collector) add(key string, rank uint64, mk func() (string, any)) {
	c.mu.Lock()
	defer c.mu.Unlock()
	v := c.m[key]
	if v == nil {
		d, r := mk()
		c.m[key] = &vrec{rank: rank, desc: d, replay: r, count: 1}
		return
	}
	v.count++
	if rank < v.rank {
		v.rank = rank
		v.desc, v.replay = mk()
	}
}

func (c *collector) merge(o *collector) {
	c.mu.Lock()
	defer c.mu.Unlock()
	for k, ov := range o.m {
		v := c.m[k]
		if v == nil {
			cp := *ov
			c.m[k] = &cp
			continue
		}
		v.count += ov.count
		if ov.rank < v.rank {
			v.rank, v.desc, v.replay = ov.rank, ov.desc, ov.replay
		}
	}
}

// flush hands the violations to the report in rank order (so the report's own "first case per key"
// is the simplest one) with their true case counts.
func (c *collector) flush(rep *core.Report) {
	keys := make([]string, 0, len(c.m))
	for k := range c.m {
		keys = append(keys, k)
	}
	sort.Slice(keys, func(i, j int) bool {
		a, b := c.m[keys[i]], c.m[keys[j]]
		if a.rank != b.rank {
			return a.rank < b.rank
		}
		return keys[i] < keys[j]
	})
	byKey := map[string]int64{}
	for _, k := range keys {
		v := c.m[k]
		for i := int64(0); i < v.count; i++ {
			rep.Violate(k, v.desc, v.replay)
		}
		byKey[k] = v.count
	}
	if len(byKey) > 0 {
		rep.Extra["violating_cases_by_key"] = byKey
	}
}

// rank layout: phase (8 bits) | size class (8 bits) | index (48 bits)
func rankOf(phase, size int, idx uint64) uint64 {
	return uint64(phase)<<56 | uint64(size&0xff)<<48 | idx&(1<<48-1)
}

// topFrame returns the function name of the first stack frame that belongs to the rain repository
// (not to the harness), without arguments and line numbers, so that panic keys are stable.
func topFrame() string {
	buf := make([]byte, 16384)
	n := runtime.Stack(buf, false)
	lines := strings.Split(string(buf[:n]), "\n")
	for i := 1; i < len(lines); i++ {
		ln := lines[i]
		if strings.HasPrefix(ln, "\t") && strings.Contains(ln, "/repo/") && !strings.Contains(ln, "zzverif") {
			fn := strings.TrimSpace(lines[i-1])
			if k := strings.LastIndex(fn, "("); k > 0 {
				fn = fn[:k]
			}
			if k := strings.LastIndex(fn, "/"); k >= 0 {
				fn = fn[k+1:]
			}
			return fn
		}
	}
	return "unknown"
}

// parallelChunks runs fn(chunk) for chunk = 0..n-1 on core.Parallelism() goroutines.
func parallelChunks(n int, fn func(worker, chunk int)) {
	var wg sync.WaitGroup
	ch := make(chan int, n)
	for i := 0; i < n; i++ {
		ch <- i
	}
	close(ch)
	for w := 0; w < core.Parallelism(); w++ {
		wg.Add(1)
		go func(w int) {
			defer wg.Done()
			for c := range ch {
				fn(w, c)
			}
		}(w)
	}
	wg.Wait()
}

func TestC18(t *testing.T) {
	logger.Disable()
	// every case allocates a few small short-lived objects and the live heap is tiny: with the default
	// GOGC the collector would run almost continuously.
	debug.SetGCPercent(2000)
	rep := core.NewReport("C18", "blockl", "model_checking")
	rep.Rule = "bounded-exhaustive, nothing sampled. " +
		"(1) stree: every ordered list (with repetitions) of <=N closed intervals [f,t], f<=t, endpoints on a 7-point lattice, under a dense value map (1..7) and a sparse one containing 0 and 2^32-1, built exactly like Blocklist.load (AddRange*, Build, copy), x every lattice point, every neighbour and every gap midpoint. " +
		"(2) blocklist: every ordered list of <=3 text lines from a universe of CIDR lines over 10.9.8.16/28 (masks /0,/1,/28../32, non-canonical host bits, adjacent /28s) plus blank/comment/malformed/IPv6/padded/CRLF lines; every Reload sequence of 3 lists of <=2 lines on ONE Blocklist object; x every address of the /28 plus outside addresses in 4- and 16-byte form. " +
		"(3) addrlist: every sequence of <=L operations (push of one address x source, mixed multi-address pushes with port-0/own/client-IP/external-IP/blocked candidates, pop, reset) on a fresh real AddrList per sequence, capacity 2 and 3, with/without blocklist, with/without known client IP; after every operation Len/LenSource/Pop are compared with the reference set and the list is drained at the end; a second universe of priority-colliding addresses; a third universe with blocklist reloads between push and pop. " +
		"(4) resolver: every IP literal x port x list. " +
		"distinct = distinct interval sets + distinct (line-list) texts + distinct reference-set states; states/transitions/traces refer to the addrlist and Reload sequences."
	rep.Assumptions = []string{
		"peerpriority.Calculate is taken as THE priority function (BEP 40 correctness is not part of C18); the reference set orders by it",
		"which entry is evicted when the queue is full is a design choice of rain and is modelled as implemented: oldest Push call first, within one Push call slice order, a re-pushed address is refreshed in place",
		"time: consecutive Push calls are separated by a strictly increasing clock reading (busy wait on time.Now, no timing oracle); equal timestamps across calls are not explored",
		"rule-list syntax is rain's: one IPv4 CIDR per line, '#' comments, surrounding white space ignored; lines in other formats (bare IP, a-b ranges, IPv4-mapped IPv6 CIDR) are not in the alphabet because the property does not say what they mean",
		"a Reload that reports an error is taken as 'list not replaced'; lists that contain a malformed line may be refused or loaded without it, both are accepted",
		"Blocked() of non-IPv4 input (IPv6, nil, odd lengths) must only not panic",
		"resolver: IP literals only (no DNS in the sandbox)",
		"lines longer than bufio.Scanner's 64 KiB limit and lists beyond 3 lines / intervals beyond the stated bounds are not enumerated",
	}
	col := newCollector()
	if pf := os.Getenv("VERIF_C18_DEBUG_PROF"); pf != "" { // debugging aid only
		f, _ := os.Create(pf)
		pprof.StartCPUProfile(f)
		defer pprof.StopCPUProfile()
	}
	t0 := time.Now()
	lap := func(what string) {
		fmt.Printf("C18/blockl: %-10s done in %.1fs\n", what, time.Since(t0).Seconds())
		t0 = time.Now()
	}
	streePart(rep, col)
	lap("stree")
	blocklistPart(rep, col)
	lap("blocklist")
	resolverPart(rep, col)
	lap("resolver")
	addrlistPart(rep, col)
	lap("addrlist")
	col.flush(rep)
	pprof.StopCPUProfile()
	rep.Finish()
}

func must(cond bool, format string, a ...any) {
	if !cond {
		core.HarnessError(format, a...)
	}
}

var _ = fmt.Sprintf

//go:build verif

package blockl

import (
	"fmt"
	"net"
	"strings"
	"sync/atomic"

	"github.com/cenkalti/rain/v2/internal/blocklist"
	"github.com/cenkalti/rain/v2/zzverif/core"
)

// ---- reference reading of one rule line (independent of net.ParseCIDR)

type lineKind int

const (
	lineSkip      lineKind = iota // blank or comment
	lineRange                     // a valid IPv4 CIDR
	lineMalformed                 // anything else
)

type refLine struct {
	text        string
	kind        lineKind
	first, last uint32
}

func refParseLine(s string) refLine {
	r := refLine{text: s}
	t := strings.Trim(s, " \t\r\n\v\f")
	if t == "" {
		r.kind = lineSkip
		return r
	}
	if t[0] == '#' {
		r.kind = lineSkip
		return r
	}
	r.kind = lineMalformed
	slash := strings.IndexByte(t, '/')
	if slash < 0 {
		return r
	}
	ip, ok := refParseIPv4(t[:slash])
	if !ok {
		return r
	}
	bits, ok := refParseDec(t[slash+1:], 32)
	if !ok {
		return r
	}
	var mask uint32
	if bits > 0 {
		mask = ^uint32(0) << (32 - uint(bits))
	}
	r.kind = lineRange
	r.first = ip & mask
	r.last = r.first | ^mask
	return r
}

func refParseDec(s string, max int) (int, bool) {
	if s == "" || len(s) > 3 {
		return 0, false
	}
	if len(s) > 1 && s[0] == '0' {
		return 0, false
	}
	v := 0
	for i := 0; i < len(s); i++ {
		if s[i] < '0' || s[i] > '9' {
			return 0, false
		}
		v = v*10 + int(s[i]-'0')
	}
	return v, v <= max
}

func refParseIPv4(s string) (uint32, bool) {
	parts := strings.Split(s, ".")
	if len(parts) != 4 {
		return 0, false
	}
	var v uint32
	for _, p := range parts {
		o, ok := refParseDec(p, 255)
		if !ok {
			return 0, false
		}
		v = v<<8 | uint32(o)
	}
	return v, true
}

type refList struct {
	lines        []refLine
	ranges       [][2]uint32
	hasMalformed bool
}

func mkRefList(lines []refLine) refList {
	l := refList{lines: lines}
	for _, ln := range lines {
		switch ln.kind {
		case lineRange:
			l.ranges = append(l.ranges, [2]uint32{ln.first, ln.last})
		case lineMalformed:
			l.hasMalformed = true
		}
	}
	return l
}

func (l *refList) text(trailingNL bool) string {
	var ts []string
	for _, ln := range l.lines {
		ts = append(ts, ln.text)
	}
	s := strings.Join(ts, "\n")
	if trailingNL && len(ts) > 0 {
		s += "\n"
	}
	return s
}

func inRanges(rs [][2]uint32, v uint32) bool {
	for _, r := range rs {
		if r[0] <= v && v <= r[1] {
			return true
		}
	}
	return false
}

// ---- universe

const blBase = uint32(10)<<24 | 9<<16 | 8<<8 | 16 // 10.9.8.16/28

func u32ip(v uint32) net.IP { return net.IP{byte(v >> 24), byte(v >> 16), byte(v >> 8), byte(v)} }

func blLineUniverse() []refLine {
	var ls []string
	for _, bits := range []int{32, 31, 30, 29, 28} { // simplest (single address) first
		step := uint32(1) << (32 - uint(bits))
		for a := blBase; a < blBase+16; a += step {
			ls = append(ls, fmt.Sprintf("%s/%d", u32ip(a), bits))
		}
	}
	ls = append(ls,
		"10.9.8.0/28", "10.9.8.32/28", // the /28s adjacent to the universe
		"0.0.0.0/0", "0.0.0.0/1", "128.0.0.0/1",
		"10.9.8.21/30", "10.9.8.31/29", "200.1.2.3/0", // host bits set: the range is the whole network
		"", "   ", "# 0.0.0.0/0",
		"garbage", "10.9.8.16/33", "10.9.8.256/32",
		"2001:db8::/32", "::1/128",
		" 10.9.8.20/31 \t", "10.9.8.24/30\r",
	)
	out := make([]refLine, len(ls))
	for i, s := range ls {
		out[i] = refParseLine(s)
	}
	return out
}

type blQuery struct {
	ip   net.IP
	v    uint32
	desc string
}

func blQueries() []blQuery {
	var vs []uint32
	for a := blBase; a < blBase+16; a++ {
		vs = append(vs, a)
	}
	vs = append(vs, blBase-1, blBase+16, blBase-16, blBase+31, blBase+32, 0, 0x7fffffff, 0x80000000, 0xffffffff, 0x09ffffff, 0x0b000000)
	var qs []blQuery
	for _, v := range vs {
		qs = append(qs, blQuery{u32ip(v), v, u32ip(v).String()})
	}
	for _, v := range vs {
		qs = append(qs, blQuery{u32ip(v).To16(), v, u32ip(v).String() + " (16-byte form)"})
	}
	return qs
}

func nonIPv4Inputs() []net.IP {
	return []net.IP{nil, {}, {1, 2, 3}, {1, 2, 3, 4, 5}, net.ParseIP("::1"), net.ParseIP("2001:db8::1"), net.ParseIP("::"), net.ParseIP("::fffe:10.9.8.20"), make(net.IP, 17)}
}

// blState runs one Blocklist object through Reload calls and checks every query after each of them.
type blState struct {
	bl      *blocklist.Blocklist
	current [][2]uint32 // reference: ranges of the currently loaded list
	history []string
}

// step reloads and checks. phase: rank phase; size/idx: rank; reloadNo: 0-based position in the sequence.
func (s *blState) step(col *collector, l *refList, trailingNL bool, queries []blQuery, phase, size int, idx uint64, cnt *blCounters) {
	txt := l.text(trailingNL)
	s.history = append(s.history, txt)
	describe := func(extra string) func() (string, any) {
		h := append([]string{}, s.history...)
		return func() (string, any) {
			return fmt.Sprintf("Blocklist after Reload of %q (in this order, one object): %s", h, extra), map[string]any{"reloads": h}
		}
	}
	mode := "single"
	if len(s.history) > 1 {
		mode = "reload"
	}
	defer func() {
		if r := recover(); r != nil {
			col.add("C18.blocklist.panic."+topFrame(), rankOf(phase, size, idx), describe(fmt.Sprintf("panic: %v", r)))
		}
	}()
	_, err := s.bl.Reload(strings.NewReader(txt))
	cnt.reloads++
	if err != nil {
		cnt.reloadErrors++
		if !l.hasMalformed {
			col.add("C18.blocklist.reload-refused."+mode, rankOf(phase, size, idx), describe("Reload of a list without any malformed line failed: "+err.Error()))
		}
		// list not replaced: s.current stays
	} else {
		s.current = l.ranges
	}
	for qi := range queries {
		q := &queries[qi]
		want := inRanges(s.current, q.v)
		got := s.bl.Blocked(q.ip)
		cnt.queries++
		if want {
			cnt.blocked++
		} else {
			cnt.free++
		}
		if got != want {
			dir := "false-negative"
			if got {
				dir = "false-positive"
			}
			cur := s.current
			col.add("C18.blocklist."+dir+"."+mode, rankOf(phase, size, idx),
				describe(fmt.Sprintf("Blocked(%s)=%v but the currently loaded ranges are %v", q.desc, got, fmtRanges(cur))))
		}
	}
}

func fmtRanges(rs [][2]uint32) string {
	var ss []string
	for _, r := range rs {
		ss = append(ss, u32ip(r[0]).String()+"-"+u32ip(r[1]).String())
	}
	return "[" + strings.Join(ss, " ") + "]"
}

type blCounters struct{ reloads, reloadErrors, queries, blocked, free int64 }

func (c *blCounters) addTo(t *blCounters) {
	atomic.AddInt64(&t.reloads, c.reloads)
	atomic.AddInt64(&t.reloadErrors, c.reloadErrors)
	atomic.AddInt64(&t.queries, c.queries)
	atomic.AddInt64(&t.blocked, c.blocked)
	atomic.AddInt64(&t.free, c.free)
}

func blocklistPart(rep *core.Report, col *collector) {
	uni := blLineUniverse()
	queries := blQueries()
	// self-check of the reference reader on the universe
	nRange, nSkip, nMal := 0, 0, 0
	for _, l := range uni {
		switch l.kind {
		case lineRange:
			nRange++
		case lineSkip:
			nSkip++
		default:
			nMal++
		}
	}
	must(nRange == 16+8+4+2+1+2+3+3+2 && nSkip == 3 && nMal == 5, "blocklist universe misclassified by the reference reader: range=%d skip=%d malformed=%d", nRange, nSkip, nMal)

	// (a) every list of <=3 lines on a fresh Blocklist
	K := len(uni)
	var total blCounters
	var nLists int64
	distinct := int64(0)
	for n := 0; n <= 3; n++ {
		cnt := 1
		for i := 0; i < n; i++ {
			cnt *= K
		}
		chunks, per := 1, cnt
		if n >= 2 {
			chunks, per = K, cnt/K
		}
		parallelChunks(chunks, func(w, chunk int) {
			local := newCollector()
			var lc blCounters
			var lLists int64
			lines := make([]refLine, n)
			for k := 0; k < per; k++ {
				idx := chunk*per + k
				x := idx
				for i := n - 1; i >= 0; i-- {
					lines[i] = uni[x%K]
					x /= K
				}
				l := mkRefList(lines)
				forms := []bool{false}
				if n <= 2 {
					forms = []bool{false, true}
				}
				for _, nl := range forms {
					st := &blState{bl: blocklist.New()}
					st.step(local, &l, nl, queries, 2, n, uint64(idx), &lc)
					lLists++
				}
			}
			col.merge(local)
			lc.addTo(&total)
			atomic.AddInt64(&nLists, lLists)
		})
		distinct += int64(cnt)
	}
	rep.Eval(nLists)
	rep.Distinct += distinct
	rep.Extra["blocklist_line_universe"] = int64(K)
	rep.Extra["blocklist_lists"] = nLists
	rep.Extra["blocklist_queries"] = total.queries
	rep.Extra["blocklist_queries_blocked"] = total.blocked
	rep.Extra["blocklist_queries_free"] = total.free
	rep.Extra["blocklist_reload_errors_single"] = total.reloadErrors
	if total.blocked == 0 || total.free == 0 || total.reloadErrors == 0 {
		rep.Vacuous("blocklist part vacuous: %+v", total)
	}
	rep.Sample(4, map[string]any{"part": "blocklist", "line_universe": func() []string {
		var s []string
		for _, l := range uni {
			s = append(s, l.text)
		}
		return s
	}()})

	// (b) Reload sequences: 3 lists of <=2 lines, one object. Prefixes are checked on the way, so this
	// covers every sequence of length 1, 2 and 3.
	pick := []string{"10.9.8.23/32", "10.9.8.24/32", "10.9.8.20/30", "10.9.8.16/28", "0.0.0.0/0", "# c", "garbage", "2001:db8::/32"}
	if core.Thorough() {
		pick = append(pick, "10.9.8.22/31", "10.9.8.16/29", "", "128.0.0.0/1")
	}
	var small []refLine
	for _, s := range pick {
		small = append(small, refParseLine(s))
	}
	var lists []refList
	lists = append(lists, mkRefList(nil))
	for i := range small {
		lists = append(lists, mkRefList([]refLine{small[i]}))
	}
	for i := range small {
		for j := range small {
			lists = append(lists, mkRefList([]refLine{small[i], small[j]}))
		}
	}
	M := len(lists)
	var seqTotal blCounters
	var nSeq, nStale int64
	parallelChunks(M, func(w, a int) {
		local := newCollector()
		var lc blCounters
		var lSeq, lStale int64
		for b := 0; b < M; b++ {
			for c := 0; c < M; c++ {
				idx := uint64((a*M+b)*M + c)
				st := &blState{bl: blocklist.New()}
				seq := [3]int{a, b, c}
				for k, li := range seq {
					before := st.current
					st.step(local, &lists[li], false, queries, 3, k+1, idx, &lc)
					if k > 0 && !sameRanges(before, st.current) {
						lStale++ // the reload changed the answer set: a stale tree would be visible
					}
				}
				lSeq++
			}
		}
		col.merge(local)
		lc.addTo(&seqTotal)
		atomic.AddInt64(&nSeq, lSeq)
		atomic.AddInt64(&nStale, lStale)
	})
	rep.Eval(nSeq)
	rep.TracesImpl += nSeq
	rep.Transitions += seqTotal.reloads
	rep.States += int64(M) // reference state of a Blocklist = its current list
	rep.Extra["blocklist_reload_lists"] = int64(M)
	rep.Extra["blocklist_reload_sequences"] = nSeq
	rep.Extra["blocklist_reload_steps_changing_the_list"] = nStale
	rep.Extra["blocklist_reload_errors_in_sequences"] = seqTotal.reloadErrors
	rep.Extra["blocklist_reload_queries"] = seqTotal.queries
	if nStale == 0 || seqTotal.reloadErrors == 0 {
		rep.Vacuous("reload part vacuous: stale=%d errors=%d", nStale, seqTotal.reloadErrors)
	}

	// (c) non-IPv4 input must not panic, whatever is loaded
	var nOdd int64
	for _, li := range []int{0, 1, M - 1} {
		bl := blocklist.New()
		bl.Reload(strings.NewReader(lists[li].text(false)))
		for _, ip := range append(nonIPv4Inputs(), nil) {
			func() {
				defer func() {
					if r := recover(); r != nil {
						col.add("C18.blocklist.panic-non-ipv4."+topFrame(), rankOf(4, 0, uint64(nOdd)), func() (string, any) {
							return fmt.Sprintf("Blocked(%#v) panicked: %v", []byte(ip), r), []byte(ip)
						})
					}
				}()
				_ = bl.Blocked(ip)
				nOdd++
			}()
		}
	}
	// a Blocklist that was never loaded
	func() {
		defer func() {
			if r := recover(); r != nil {
				col.add("C18.blocklist.panic-unloaded."+topFrame(), rankOf(4, 1, 0), func() (string, any) { return fmt.Sprintf("Blocked on a new Blocklist panicked: %v", r), nil })
			}
		}()
		bl := blocklist.New()
		for _, q := range queries {
			if bl.Blocked(q.ip) {
				col.add("C18.blocklist.false-positive.unloaded", rankOf(4, 1, 1), func() (string, any) {
					return "a Blocklist that never loaded a list blocks " + q.desc, nil
				})
			}
		}
	}()
	rep.Eval(nOdd)
	rep.Extra["blocklist_non_ipv4_queries"] = nOdd
}

func sameRanges(a, b [][2]uint32) bool {
	if len(a) != len(b) {
		return false
	}
	for i := range a {
		if a[i] != b[i] {
			return false
		}
	}
	return true
}

//go:build verif

package blockl

import (
	"fmt"
	"net"
	"os"
	"strconv"
	"strings"
	"time"

	"github.com/cenkalti/rain/v2/internal/addrlist"
	"github.com/cenkalti/rain/v2/internal/blocklist"
	"github.com/cenkalti/rain/v2/internal/peerpriority"
	"github.com/cenkalti/rain/v2/internal/peersource"
	"github.com/cenkalti/rain/v2/zzverif/core"
)

const alListenPort = 50000

var alClientIP = net.IPv4(203, 0, 113, 7)

const alBlockLine = "198.51.100.192/26"

var srcNames = []string{"tracker", "dht", "pex", "manual", "incoming"}

const nSources = 5

// admissibility classes of the reference (independent of rain's Push filters)
const (
	admOK = iota
	admPort0
	admOwn   // loopback address with our listen port
	admOwnIP // our own public address (configured client IP or a public interface address), any port
	admBlocked
)

var admNames = []string{"ok", "port0", "own", "own-ip", "blocked"}

type uAddr struct {
	name string
	tcp  *net.TCPAddr
}

func (a uAddr) String() string { return a.tcp.String() }

type alCfg struct {
	cap int
	bl  bool
	cip bool
}

func (c alCfg) String() string {
	bl, cip := "none", "unknown"
	if c.bl {
		bl = "[" + alBlockLine + "]"
	}
	if c.cip {
		cip = alClientIP.String()
	}
	return fmt.Sprintf("New(maxItems=%d, blocklist=%s, listenPort=%d, clientIP=%s)", c.cap, bl, alListenPort, cip)
}

const (
	opPush = iota
	opPop
	opReset
	opReload // reload universe only
)

type alOp struct {
	kind  int
	addrs []int8 // universe indices
	src   int8
	list  int // reload universe: which list
}

// machinePublicIPs: IPv4 addresses of this machine's interfaces that are neither loopback, link-local
// nor RFC 1918 (the client treats these as "its own external address").
func machinePublicIPs() []net.IP {
	var out []net.IP
	as, _ := net.InterfaceAddrs()
	for _, a := range as {
		n, ok := a.(*net.IPNet)
		if !ok {
			continue
		}
		ip := n.IP.To4()
		if ip == nil {
			continue
		}
		switch {
		case ip[0] == 127, ip[0] == 10, ip[0] == 169 && ip[1] == 254, ip[0] == 192 && ip[1] == 168,
			ip[0] == 172 && ip[1]&0xf0 == 16, ip[0] == 224 && ip[1] == 0 && ip[2] == 0:
			continue
		}
		out = append(out, ip)
	}
	return out
}

// alCtx is the per-(worker, configuration) context: real blocklist object, reference classification,
// priorities.
type alCtx struct {
	cfg   alCfg
	uni   []uAddr
	bl    *blocklist.Blocklist
	cip   net.IP
	adm   []int8
	prio  []uint32
	id    []int32 // strict identity: the address
	cid   []int32 // collapsed identity: the priority (classification of the collision defect only)
	descr string
}

func newAlCtx(cfg alCfg, uni []uAddr, pub []net.IP) *alCtx {
	c := &alCtx{cfg: cfg, uni: uni}
	var ranges [][2]uint32
	if cfg.bl {
		c.bl = blocklist.New()
		if _, err := c.bl.Reload(strings.NewReader(alBlockLine + "\n")); err != nil {
			core.HarnessError("addrlist: blocklist load: %v", err)
		}
		l := mkRefList([]refLine{refParseLine(alBlockLine)})
		ranges = l.ranges
	}
	if cfg.cip {
		c.cip = append(net.IP{}, alClientIP...)
	}
	client := &net.TCPAddr{IP: c.cip, Port: alListenPort}
	if c.cip == nil {
		client.IP = net.IPv4(0, 0, 0, 0)
	}
	prioClass := map[uint32]int32{}
	for i, a := range uni {
		ip4 := a.tcp.IP.To4()
		v := uint32(ip4[0])<<24 | uint32(ip4[1])<<16 | uint32(ip4[2])<<8 | uint32(ip4[3])
		adm := int8(admOK)
		switch {
		case a.tcp.Port == 0:
			adm = admPort0
		case ip4[0] == 127 && a.tcp.Port == alListenPort:
			adm = admOwn
		case cfg.cip && ip4.Equal(alClientIP.To4()):
			adm = admOwnIP
		case cfg.bl && inRanges(ranges, v):
			adm = admBlocked
		}
		for _, p := range pub {
			if p.Equal(ip4) && adm == admOK {
				adm = admOwnIP
			}
		}
		c.adm = append(c.adm, adm)
		p := peerpriority.Calculate(a.tcp, client)
		c.prio = append(c.prio, p)
		c.id = append(c.id, int32(i))
		if _, ok := prioClass[p]; !ok {
			prioClass[p] = int32(len(prioClass))
		}
		c.cid = append(c.cid, prioClass[p])
	}
	c.descr = cfg.String()
	return c
}

func (c *alCtx) indexOf(a *net.TCPAddr) int {
	for i := range c.uni {
		if c.uni[i].tcp == a {
			return i
		}
	}
	for i := range c.uni {
		if c.uni[i].tcp.IP.Equal(a.IP) && c.uni[i].tcp.Port == a.Port {
			return i
		}
	}
	return -2
}

// ---- the reference: a bounded priority set

type mEnt struct {
	addr  int8
	src   int8
	stamp int32
}

type refSet struct {
	ents  [24]mEnt
	n     int
	cap   int
	clock int32
}

type alCounters struct {
	pushes, admitted, refreshed, evicted, popHit, popEmpty, resetNonEmpty int64
	filtered                                                             [5]int64
}

func (c *alCounters) add(o *alCounters) {
	c.pushes += o.pushes
	c.admitted += o.admitted
	c.refreshed += o.refreshed
	c.evicted += o.evicted
	c.popHit += o.popHit
	c.popEmpty += o.popEmpty
	c.resetNonEmpty += o.resetNonEmpty
	for i := range c.filtered {
		c.filtered[i] += o.filtered[i]
	}
}

func (m *refSet) push(c *alCtx, id []int32, addrs []int8, src int8, cnt *alCounters) {
	m.clock++
	for _, a := range addrs {
		if c.adm[a] != admOK {
			if cnt != nil {
				cnt.filtered[c.adm[a]]++
			}
			continue
		}
		found := -1
		for i := 0; i < m.n; i++ {
			if id[m.ents[i].addr] == id[a] {
				found = i
				break
			}
		}
		if found >= 0 {
			m.ents[found] = mEnt{a, src, m.clock} // same element again: refreshed in place
			if cnt != nil {
				cnt.refreshed++
			}
		} else {
			m.ents[m.n] = mEnt{a, src, m.clock}
			m.n++
			if cnt != nil {
				cnt.admitted++
			}
		}
	}
	// oldest first, stable
	for i := 1; i < m.n; i++ {
		for j := i; j > 0 && m.ents[j].stamp < m.ents[j-1].stamp; j-- {
			m.ents[j], m.ents[j-1] = m.ents[j-1], m.ents[j]
		}
	}
	if m.n > m.cap {
		d := m.n - m.cap
		copy(m.ents[:], m.ents[d:m.n])
		m.n = m.cap
		if cnt != nil {
			cnt.evicted += int64(d)
		}
	}
}

// pop judges what the real list returned (got = universe index, -1 = nil) and follows it.
// Returns "" or the violation class.
func (m *refSet) pop(c *alCtx, got int, src int8, cnt *alCounters) string {
	if got == -1 {
		if m.n == 0 {
			if cnt != nil {
				cnt.popEmpty++
			}
			return ""
		}
		return "set.lost"
	}
	if got < 0 {
		return "set.extra"
	}
	if c.adm[got] != admOK {
		return "forbidden." + admNames[c.adm[got]]
	}
	at := -1
	var maxp uint32
	for i := 0; i < m.n; i++ {
		if int(m.ents[i].addr) == got {
			at = i
		}
		if p := c.prio[m.ents[i].addr]; p > maxp {
			maxp = p
		}
	}
	if at < 0 {
		return "set.extra"
	}
	if c.prio[got] < maxp {
		return "order"
	}
	wrongSrc := m.ents[at].src != src
	copy(m.ents[at:], m.ents[at+1:m.n])
	m.n--
	if wrongSrc {
		return "source"
	}
	if cnt != nil {
		cnt.popHit++
	}
	return ""
}

func (m *refSet) observe(al *addrlist.AddrList) (string, string) {
	l := al.Len()
	if l > m.cap {
		return "bound", fmt.Sprintf("Len()=%d exceeds the capacity %d", l, m.cap)
	}
	if l != m.n {
		return "len", fmt.Sprintf("Len()=%d", l)
	}
	var want [nSources]int
	for i := 0; i < m.n; i++ {
		want[m.ents[i].src]++
	}
	for s := 0; s < nSources; s++ {
		if g := al.LenSource(peersource.Source(s)); g != want[s] {
			return "lensource", fmt.Sprintf("LenSource(%s)=%d want %d", srcNames[s], g, want[s])
		}
	}
	return "", ""
}

func (m *refSet) render(c *alCtx) string {
	var ss []string
	for i := 0; i < m.n; i++ {
		e := m.ents[i]
		ss = append(ss, fmt.Sprintf("%s/%s prio=%08x", c.uni[e.addr], srcNames[e.src], c.prio[e.addr]))
	}
	return "{" + strings.Join(ss, ", ") + "} (oldest first)"
}

func (m *refSet) encode() uint32 {
	v := uint32(m.n)
	for i := 0; i < m.n; i++ {
		v = v<<7 | uint32(m.ents[i].addr)<<3 | uint32(m.ents[i].src)
	}
	return v
}

// ---- running one sequence on the real AddrList

type alRunner struct {
	ctx       *alCtx
	collapsed bool // also run the identity-by-priority reference (collision universe)
	after     time.Time
	tcpBuf    []*net.TCPAddr
	cnt       alCounters
	states    map[uint32]struct{}
	cfgIdx    uint32
}

type alViolation struct {
	class  string
	step   int // 0-based op index; len(ops) = final drain
	detail string
}

func renderOps(c *alCtx, ops []alOp, upto int) string {
	var ss []string
	for i, o := range ops {
		if i > upto {
			break
		}
		switch o.kind {
		case opPush:
			var as []string
			for _, a := range o.addrs {
				as = append(as, c.uni[a].String())
			}
			ss = append(ss, fmt.Sprintf("Push([%s], %s)", strings.Join(as, " "), srcNames[o.src]))
		case opPop:
			ss = append(ss, "Pop()")
		case opReset:
			ss = append(ss, "Reset()")
		case opReload:
			ss = append(ss, fmt.Sprintf("blocklist.Reload(%q)", reloadLists[o.list]))
		}
	}
	return strings.Join(ss, "; ")
}

// run executes ops on a fresh AddrList. Returns nil or the first violation.
func (r *alRunner) run(ops []alOp) (v *alViolation) {
	c := r.ctx
	step := 0
	defer func() {
		if p := recover(); p != nil {
			v = &alViolation{"panic." + topFrame(), step, fmt.Sprintf("panic: %v", p)}
		}
	}()
	cip := c.cip
	al := addrlist.New(c.cfg.cap, c.bl, alListenPort, &cip)
	strict := refSet{cap: c.cfg.cap}
	coll := refSet{cap: c.cfg.cap}
	collOK := r.collapsed
	judge := func(sClass, sDetail, cClass string) *alViolation {
		if sClass == "" {
			if cClass != "" {
				collOK = false
			}
			return nil
		}
		if collOK && cClass == "" {
			return &alViolation{"set.collision-drop", step, sDetail + "; the list behaves as if addresses with equal priority were the same address"}
		}
		return &alViolation{sClass, step, sDetail}
	}
	doPop := func() (*alViolation, bool) {
		a, s := al.Pop()
		got := -1
		if a != nil {
			got = c.indexOf(a)
		}
		before := ""
		sClass := strict.pop(c, got, int8(s), &r.cnt)
		cClass := ""
		if r.collapsed {
			cClass = coll.pop(c, got, int8(s), nil)
		}
		if sClass != "" {
			what := "nil"
			if a != nil {
				what = fmt.Sprintf("%s/%s", a, srcNames[s])
				if got >= 0 {
					what += fmt.Sprintf(" prio=%08x", c.prio[got])
				}
			}
			before = fmt.Sprintf("Pop() returned %s; reference set (after following the pop if it was legal) %s", what, strict.render(c))
		}
		return judge(sClass, before, cClass), a != nil
	}
	for step = 0; step < len(ops); step++ {
		o := &ops[step]
		switch o.kind {
		case opPush:
			r.tcpBuf = r.tcpBuf[:0]
			for _, a := range o.addrs {
				t := c.uni[a].tcp
				if peersource.Source(o.src) == peersource.DHT || peersource.Source(o.src) == peersource.Manual {
					// the same endpoint in the other encoding: compact peer lists (DHT) carry 4-byte IPv4 addresses,
					// ParseIP-built ones (trackers, PEX) 16-byte ones; the set must not tell them apart
					t = &net.TCPAddr{IP: t.IP.To4(), Port: t.Port}
				}
				r.tcpBuf = append(r.tcpBuf, t)
			}
			for !time.Now().After(r.after) { // the next Push sees a strictly later clock
			}
			al.Push(r.tcpBuf, peersource.Source(o.src))
			r.after = time.Now()
			r.cnt.pushes++
			strict.push(c, c.id, o.addrs, o.src, &r.cnt)
			if r.collapsed {
				coll.push(c, c.cid, o.addrs, o.src, nil)
			}
		case opPop:
			if v, _ := doPop(); v != nil {
				return v
			}
		case opReset:
			if strict.n > 0 {
				r.cnt.resetNonEmpty++
			}
			al.Reset()
			strict.n = 0
			coll.n = 0
		}
		sClass, sDetail := strict.observe(al)
		cClass := ""
		if r.collapsed {
			cClass, _ = coll.observe(al)
		}
		if sClass != "" {
			sDetail += "; reference set " + strict.render(c)
		}
		if v := judge(sClass, sDetail, cClass); v != nil {
			return v
		}
	}
	if r.states != nil {
		r.states[r.cfgIdx<<24|strict.encode()] = struct{}{}
	}
	// drain: what is really inside
	for k := 0; ; k++ {
		if k > c.cfg.cap+2 {
			return &alViolation{"bound", step, "more addresses popped than the capacity allows"}
		}
		v, more := doPop()
		if v != nil {
			v.detail = "draining after the sequence: " + v.detail
			return v
		}
		if !more {
			break
		}
	}
	if sClass, sDetail := strict.observe(al); sClass != "" {
		return &alViolation{sClass, step, "after draining: " + sDetail}
	}
	return nil
}

func pow(k, n int) int {
	r := 1
	for i := 0; i < n; i++ {
		r *= k
	}
	return r
}

// enumerate runs every sequence of exactly 1..maxL ops from alphabet on every configuration.
func alEnumerate(rep *core.Report, col *collector, phase int, tag string, uni []uAddr, pub []net.IP, cfgs []alCfg, alphabet []alOp, maxL int, collapsed bool, total *alCounters, states map[uint32]struct{}) (nSeq, nOps int64) {
	K := len(alphabet)
	P := core.Parallelism()
	for ci, cfg := range cfgs {
		runners := make([]*alRunner, P)
		for w := range runners {
			runners[w] = &alRunner{ctx: newAlCtx(cfg, uni, pub), collapsed: collapsed, states: map[uint32]struct{}{}, cfgIdx: uint32(phase*16 + ci)}
		}
		// self-check of the universe for this configuration
		c0 := runners[0].ctx
		if !collapsed {
			seen := map[uint32]int{}
			for i := range uni {
				if c0.adm[i] != admOK {
					continue
				}
				if j, dup := seen[c0.prio[i]]; dup {
					core.HarnessError("addrlist universe %s: %s and %s have the same priority under %s", tag, uni[i], uni[j], cfg)
				}
				seen[c0.prio[i]] = i
			}
		}
		for L := 1; L <= maxL; L++ {
			cnt := pow(K, L)
			chunks, per := 1, cnt
			if L >= 3 {
				chunks = K * K
				per = cnt / chunks
			}
			locals := make([]*collector, P)
			var seqs = make([]int64, P)
			parallelChunks(chunks, func(w, chunk int) {
				r := runners[w]
				if locals[w] == nil {
					locals[w] = newCollector()
				}
				ops := make([]alOp, L)
				for k := 0; k < per; k++ {
					idx := chunk*per + k
					x := idx
					for i := L - 1; i >= 0; i-- {
						ops[i] = alphabet[x%K]
						x /= K
					}
					seqs[w]++
					if v := r.run(ops); v != nil {
						locals[w].add("C18.addrlist."+v.class, rankOf(phase, L, uint64(ci)<<40|uint64(idx)), func() (string, any) {
							upto := v.step
							d := fmt.Sprintf("%s: %s -> %s", r.ctx.descr, renderOps(r.ctx, ops, upto), v.detail)
							return d, map[string]any{"config": r.ctx.descr, "ops": renderOps(r.ctx, ops, len(ops))}
						})
					}
				}
			})
			for w := range locals {
				if locals[w] != nil {
					col.merge(locals[w])
				}
				nSeq += seqs[w]
				nOps += seqs[w] * int64(L)
			}
		}
		for _, r := range runners {
			total.add(&r.cnt)
			for s := range r.states {
				states[s] = struct{}{}
			}
		}
	}
	_ = rep
	return
}

func tcp(a, b, c, d byte, port int) *net.TCPAddr {
	return &net.TCPAddr{IP: net.IPv4(a, b, c, d), Port: port}
}

var reloadLists = []string{"198.51.100.11/32\n", "198.51.100.10/32\n", ""}

func addrlistPart(rep *core.Report, col *collector) {
	pub := machinePublicIPs()
	// ---- universe A: pairwise distinct priorities
	uniA := []uAddr{
		{"G1", tcp(198, 51, 100, 10, 6881)},
		{"G2", tcp(198, 51, 100, 11, alListenPort)}, // foreign host that happens to use our port number: admissible
		{"G3", tcp(203, 0, 113, 9, 51413)},          // same /24 as the client address
		{"G4", tcp(127, 0, 0, 1, 7000)},             // loopback, other port: admissible
		{"P0", tcp(198, 51, 100, 10, 0)},            // port 0
		{"OWN", tcp(127, 0, 0, 1, alListenPort)},    // ourselves via loopback
		{"CIP", tcp(203, 0, 113, 7, 12345)},         // our client IP (when known)
		{"BLK", tcp(198, 51, 100, 200, 6881)},       // inside the blocklist range (when one is configured)
	}
	const (
		G1, G2, G3, G4, P0, OWN, CIP, BLK = 0, 1, 2, 3, 4, 5, 6, 7
	)
	specials := []int8{P0, OWN, CIP, BLK}
	mixed := []int8{P0, G1, OWN, G2, BLK, G3, CIP}
	if len(pub) > 0 {
		p := pub[0].To4()
		uniA = append(uniA, uAddr{"EXT", tcp(p[0], p[1], p[2], p[3], alListenPort)}) // our own listening address on a public interface
		specials = append(specials, 8)
		mixed = append(mixed, 8)
	}
	T, D, X := int8(peersource.Tracker), int8(peersource.DHT), int8(peersource.PEX)
	var singles []alOp
	for _, a := range []int8{G1, G2, G3, G4} {
		for _, s := range []int8{T, D, X} {
			singles = append(singles, alOp{kind: opPush, addrs: []int8{a}, src: s})
		}
	}
	popReset := []alOp{{kind: opPop}, {kind: opReset}}
	opMixed := alOp{kind: opPush, addrs: mixed, src: X}
	opSpecials := alOp{kind: opPush, addrs: specials, src: T}
	// three alphabets: base (the pure push/pop/reset alphabet, deepest), reduced (+ the two mixed pushes),
	// full (+ every special candidate alone, more multi-address pushes, the two remaining sources)
	base := append(append([]alOp{}, singles...), popReset...)
	reduced := append(append([]alOp{}, base...), opMixed, opSpecials)
	full := append([]alOp{}, base...)
	for _, a := range specials {
		full = append(full, alOp{kind: opPush, addrs: []int8{a}, src: T})
	}
	full = append(full, opMixed,
		alOp{kind: opPush, addrs: []int8{G4, G3, G2, G1}, src: D},
		alOp{kind: opPush, addrs: []int8{G1, G1, G2}, src: T},
		alOp{kind: opPush, addrs: []int8{G2, G3}, src: int8(peersource.Manual)},
		alOp{kind: opPush, addrs: []int8{G1}, src: int8(peersource.Incoming)},
	)
	cfgs := []alCfg{{2, true, true}, {3, false, false}, {3, true, true}, {2, false, false}}
	type plan struct {
		tag      string
		alphabet []alOp
		cfgs     []alCfg
		maxL     int
	}
	plans := []plan{{"full", full, cfgs, 4}, {"reduced", reduced, cfgs, 5}, {"base", base, cfgs, 6}}
	if core.Thorough() {
		all := append(append([]alCfg{}, cfgs...), alCfg{2, true, false}, alCfg{3, false, true}, alCfg{2, false, true}, alCfg{3, true, false})
		plans = []plan{{"full", full, all[4:], 4}, {"full-deep", full, all[:4], 5}, {"reduced", reduced, all[4:], 5}, {"reduced-deep", reduced, all[:4], 6},
			{"base", base, append(append([]alCfg{}, all[:2]...), all[3:]...), 6}, {"base-deep", base, all[2:3], 7}}
	}
	if v, err := strconv.Atoi(os.Getenv("VERIF_C18_DEBUG_DEPTH")); err == nil { // debugging aid only
		for i := range plans {
			if plans[i].maxL > v {
				plans[i].maxL = v
			}
		}
		rep.Cap("debug depth override")
	}
	var total alCounters
	states := map[uint32]struct{}{}
	var nSeq, nOps int64
	for _, p := range plans {
		s, o := alEnumerate(rep, col, 6, "A/"+p.tag, uniA, pub, p.cfgs, p.alphabet, p.maxL, false, &total, states)
		nSeq, nOps = nSeq+s, nOps+o
		rep.Extra["addrlist_alphabet_"+p.tag] = fmt.Sprintf("%d ops, every length<=%d, %d configurations: %d sequences", len(p.alphabet), p.maxL, len(p.cfgs), s)
	}
	rep.Extra["addrlist_own_public_interface_address_in_universe"] = len(pub) > 0

	// ---- universe B: addresses whose BEP 40 priorities coincide (masked bits / same IP other port)
	uniB := []uAddr{
		{"X1", tcp(198, 51, 100, 4, 6881)},
		{"X2", tcp(198, 51, 100, 6, 6881)}, // differs from X1 only in a bit that the BEP 40 mask ff.ff.55.55 removes
		{"X3", tcp(198, 51, 100, 4, 6882)}, // same host as X1, other port (two clients behind one NAT)
		{"X4", tcp(198, 51, 100, 5, 6881)},
	}
	var opsB []alOp
	for a := int8(0); a < 4; a++ {
		for _, s := range []int8{T, X} {
			opsB = append(opsB, alOp{kind: opPush, addrs: []int8{a}, src: s})
		}
	}
	opsB = append(opsB, popReset...)
	cfgB := []alCfg{{3, false, true}, {2, false, true}}
	cB := newAlCtx(cfgB[0], uniB, pub)
	if !(cB.prio[0] == cB.prio[1] && cB.prio[0] == cB.prio[2] && cB.prio[0] != cB.prio[3]) {
		core.HarnessError("addrlist universe B: expected priority(X1)=priority(X2)=priority(X3)!=priority(X4), got %08x %08x %08x %08x", cB.prio[0], cB.prio[1], cB.prio[2], cB.prio[3])
	}
	lB := 5
	if core.Thorough() {
		lB = 6
	}
	var totalB alCounters
	s3, o3 := alEnumerate(rep, col, 7, "B", uniB, pub, cfgB, opsB, lB, true, &totalB, states)
	nSeq, nOps = nSeq+s3, nOps+o3
	rep.Extra["addrlist_collision_universe"] = fmt.Sprintf("%d ops, length<=%d, 2 configurations: %d sequences", len(opsB), lB, s3)

	// ---- universe R: the blocklist is reloaded between Push and Pop (safety oracle only)
	s4, o4, nReloadPops := alReloadUniverse(col, pub)
	nSeq, nOps = nSeq+s4, nOps+o4
	rep.Extra["addrlist_reload_universe_sequences"] = s4
	rep.Extra["addrlist_reload_universe_pops_checked"] = nReloadPops

	rep.Eval(nSeq)
	rep.TracesImpl += nSeq
	rep.Transitions += nOps
	rep.States += int64(len(states))
	rep.Distinct += int64(len(states))
	rep.Extra["addrlist_sequences"] = nSeq
	rep.Extra["addrlist_reference_states"] = int64(len(states))
	rep.Extra["addrlist_push_calls"] = total.pushes + totalB.pushes
	rep.Extra["addrlist_admitted_new"] = total.admitted
	rep.Extra["addrlist_refreshed_existing"] = total.refreshed
	rep.Extra["addrlist_evicted"] = total.evicted
	rep.Extra["addrlist_pop_nonempty"] = total.popHit
	rep.Extra["addrlist_pop_empty"] = total.popEmpty
	rep.Extra["addrlist_reset_nonempty"] = total.resetNonEmpty
	rep.Extra["addrlist_filtered_port0"] = total.filtered[admPort0]
	rep.Extra["addrlist_filtered_own_loopback"] = total.filtered[admOwn]
	rep.Extra["addrlist_filtered_own_ip"] = total.filtered[admOwnIP]
	rep.Extra["addrlist_filtered_blocked"] = total.filtered[admBlocked]
	rep.Extra["addrlist_collision_universe_refreshed"] = totalB.refreshed
	rep.Sample(8, map[string]any{"part": "addrlist", "config": cfgs[0].String(), "ops": renderOps(newAlCtx(cfgs[0], uniA, pub), []alOp{singles[0], opMixed, {kind: opPop}, full[len(full)-4], {kind: opPop}, {kind: opReset}}, 99)})
	rep.Sample(8, map[string]any{"part": "addrlist", "universe": func() []string {
		var s []string
		for _, a := range uniA {
			s = append(s, a.name+"="+a.String())
		}
		return s
	}()})
	if total.evicted == 0 || total.refreshed == 0 || total.popHit == 0 || total.popEmpty == 0 || total.resetNonEmpty == 0 ||
		total.filtered[admPort0] == 0 || total.filtered[admOwn] == 0 || total.filtered[admOwnIP] == 0 || total.filtered[admBlocked] == 0 {
		rep.Vacuous("addrlist part vacuous: %+v", total)
	}
}

// alReloadUniverse: AddrList shares the live Blocklist object; lists are swapped between pushes and
// pops. Oracle (safety only): Pop never returns an address that the CURRENT list blocks.
func alReloadUniverse(col *collector, pub []net.IP) (nSeq, nOps, nPops int64) {
	uni := []uAddr{{"G1", tcp(198, 51, 100, 10, 6881)}, {"G2", tcp(198, 51, 100, 11, 6881)}}
	T, X := int8(peersource.Tracker), int8(peersource.PEX)
	alphabet := []alOp{
		{kind: opPush, addrs: []int8{0}, src: T}, {kind: opPush, addrs: []int8{1}, src: T}, {kind: opPush, addrs: []int8{0, 1}, src: X},
		{kind: opPop}, {kind: opReset},
		{kind: opReload, list: 0}, {kind: opReload, list: 1}, {kind: opReload, list: 2},
	}
	var refLists []refList
	for _, s := range reloadLists {
		var ls []refLine
		for _, ln := range strings.Split(strings.TrimSuffix(s, "\n"), "\n") {
			ls = append(ls, refParseLine(ln))
		}
		refLists = append(refLists, mkRefList(ls))
	}
	ipv := func(a *net.TCPAddr) uint32 {
		p := a.IP.To4()
		return uint32(p[0])<<24 | uint32(p[1])<<16 | uint32(p[2])<<8 | uint32(p[3])
	}
	maxL := 5
	if core.Thorough() {
		maxL = 6
	}
	K := len(alphabet)
	P := core.Parallelism()
	cfg := alCfg{cap: 2, bl: true, cip: true}
	descr := fmt.Sprintf("New(maxItems=2, blocklist=<live object, initially empty>, listenPort=%d, clientIP=%s)", alListenPort, alClientIP)
	ctxR := &alCtx{cfg: cfg, uni: uni}
	for L := 1; L <= maxL; L++ {
		cnt := pow(K, L)
		chunks, per := 1, cnt
		if L >= 3 {
			chunks, per = K*K, cnt/(K*K)
		}
		seqs := make([]int64, P)
		pops := make([]int64, P)
		locals := make([]*collector, P)
		parallelChunks(chunks, func(w, chunk int) {
			if locals[w] == nil {
				locals[w] = newCollector()
			}
			ops := make([]alOp, L)
			var after time.Time
			for k := 0; k < per; k++ {
				idx := chunk*per + k
				x := idx
				for i := L - 1; i >= 0; i-- {
					ops[i] = alphabet[x%K]
					x /= K
				}
				seqs[w]++
				func() {
					step := 0
					report := func(class, detail string) {
						st := step
						locals[w].add("C18.addrlist."+class, rankOf(8, L, uint64(idx)), func() (string, any) {
							return fmt.Sprintf("%s: %s -> %s", descr, renderOps(ctxR, ops, st), detail), map[string]any{"config": descr, "ops": renderOps(ctxR, ops, len(ops))}
						})
					}
					defer func() {
						if p := recover(); p != nil {
							report("panic."+topFrame(), fmt.Sprintf("panic: %v", p))
						}
					}()
					bl := blocklist.New()
					cip := append(net.IP{}, alClientIP...)
					al := addrlist.New(2, bl, alListenPort, &cip)
					var current [][2]uint32
					var freeAtPush [2]bool
					for step = 0; step < L; step++ {
						o := &ops[step]
						switch o.kind {
						case opPush:
							var as []*net.TCPAddr
							for _, a := range o.addrs {
								as = append(as, uni[a].tcp)
								if !inRanges(current, ipv(uni[a].tcp)) {
									freeAtPush[a] = true // (re)queued while no loaded range contained it
								}
							}
							for !time.Now().After(after) {
							}
							al.Push(as, peersource.Source(o.src))
							after = time.Now()
						case opReset:
							al.Reset()
							freeAtPush = [2]bool{}
						case opReload:
							if _, err := bl.Reload(strings.NewReader(reloadLists[o.list])); err != nil {
								core.HarnessError("reload universe: %v", err)
							}
							current = refLists[o.list].ranges
						case opPop:
							a, _ := al.Pop()
							if a == nil {
								continue
							}
							pops[w]++
							i := ctxR.indexOf(a)
							wasFree := i >= 0 && freeAtPush[i]
							if i >= 0 {
								freeAtPush[i] = false
							}
							if inRanges(current, ipv(a)) {
								if wasFree {
									report("forbidden.blocked-after-reload", fmt.Sprintf("Pop() returned %s, which the currently loaded blocklist %s blocks (it was pushed before that list was loaded)", a, fmtRanges(current)))
								} else {
									report("forbidden.blocked", fmt.Sprintf("Pop() returned %s, which the blocklist %s blocks", a, fmtRanges(current)))
								}
								return
							}
						}
					}
				}()
			}
		})
		for w := range locals {
			if locals[w] != nil {
				col.merge(locals[w])
			}
			nSeq += seqs[w]
			nOps += seqs[w] * int64(L)
			nPops += pops[w]
		}
	}
	_ = pub
	return
}

//go:build verif

package blockl

import (
	"context"
	"errors"
	"fmt"
	"net"
	"strings"
	"time"

	"github.com/cenkalti/rain/v2/internal/blocklist"
	"github.com/cenkalti/rain/v2/internal/resolver"
	"github.com/cenkalti/rain/v2/zzverif/core"
)

// resolverPart: resolver.Resolve is the gate in front of every tracker / web-seed / DHT-bootstrap
// connection. For IP literals it must refuse exactly the blocked ones (and port 0).
func resolverPart(rep *core.Report, col *collector) {
	type cfg struct {
		name  string
		lines []string
		nilBL bool
	}
	cfgs := []cfg{
		{name: "no blocklist", nilBL: true},
		{name: "empty list"},
		{name: "/32", lines: []string{"10.9.8.23/32"}},
		{name: "/30+/31", lines: []string{"10.9.8.20/30", "# x", "10.9.8.28/31"}},
		{name: "/28", lines: []string{"10.9.8.16/28"}},
		{name: "/1", lines: []string{"0.0.0.0/1"}},
		{name: "/0", lines: []string{"0.0.0.0/0"}},
		{name: "loopback", lines: []string{"127.0.0.0/8"}},
	}
	var vs []uint32
	for a := blBase - 1; a <= blBase+16; a++ {
		vs = append(vs, a)
	}
	vs = append(vs, 0x7f000001, 0x80000000, 0xffffffff, 0x01010101)
	ports := []int{1, 6881, 65535}
	ctx := context.Background()
	var n, nBlocked, nFree, nPort0, nV6 int64
	for ci, c := range cfgs {
		var bl *blocklist.Blocklist
		var lines []refLine
		for _, s := range c.lines {
			lines = append(lines, refParseLine(s))
		}
		ref := mkRefList(lines)
		if !c.nilBL {
			bl = blocklist.New()
			if _, err := bl.Reload(strings.NewReader(ref.text(true))); err != nil {
				core.HarnessError("resolver part: cannot load list %q: %v", c.lines, err)
			}
		}
		for vi, v := range vs {
			lit := u32ip(v).String()
			blocked := !c.nilBL && inRanges(ref.ranges, v)
			for pi, port := range append(ports, 0) {
				hostport := fmt.Sprintf("%s:%d", lit, port)
				rank := rankOf(5, ci, uint64(vi*8+pi))
				mk := func(extra string) func() (string, any) {
					return func() (string, any) {
						return fmt.Sprintf("resolver.Resolve(%q) with blocklist %s %q: %s", hostport, c.name, c.lines, extra), map[string]any{"hostport": hostport, "list": c.lines}
					}
				}
				func() {
					defer func() {
						if r := recover(); r != nil {
							col.add("C18.resolver.panic."+topFrame(), rank, mk(fmt.Sprintf("panic: %v", r)))
						}
					}()
					ip, p, err := resolver.Resolve(ctx, hostport, time.Second, bl)
					n++
					switch {
					case port == 0:
						nPort0++
						if err == nil {
							col.add("C18.resolver.port0-accepted", rank, mk(fmt.Sprintf("returned %v:%d, a port-0 address must be refused", ip, p)))
						}
					case blocked:
						nBlocked++
						if err == nil || ip != nil {
							col.add("C18.resolver.blocked-literal-accepted", rank, mk(fmt.Sprintf("returned ip=%v err=%v for a blocked address", ip, err)))
						}
					default:
						nFree++
						if errors.Is(err, resolver.ErrBlocked) {
							col.add("C18.resolver.free-literal-blocked", rank, mk("ErrBlocked for an address outside every range"))
						} else if err != nil {
							col.add("C18.resolver.free-literal-refused", rank, mk("error "+err.Error()))
						} else if !ip.Equal(u32ip(v)) || p != port {
							col.add("C18.resolver.wrong-result", rank, mk(fmt.Sprintf("returned %v:%d", ip, p)))
						}
					}
				}()
			}
		}
		// IPv6 literals are never handed out (the client is IPv4 only) and never panic
		for k, hp := range []string{"[::1]:80", "[2001:db8::1]:6881"} {
			func() {
				defer func() {
					if r := recover(); r != nil {
						col.add("C18.resolver.panic."+topFrame(), rankOf(5, ci, uint64(1000+k)), func() (string, any) { return fmt.Sprintf("Resolve(%q) panicked: %v", hp, r), hp })
					}
				}()
				ip, _, err := resolver.Resolve(ctx, hp, time.Second, bl)
				n++
				nV6++
				if err == nil && ip.To4() == nil {
					col.add("C18.resolver.ipv6-passed-unchecked", rankOf(5, ci, uint64(1000+k)), func() (string, any) {
						return fmt.Sprintf("Resolve(%q) returned the IPv6 address %v, which the IPv4 blocklist cannot judge", hp, ip), hp
					})
				}
			}()
		}
	}
	// ResolveIPv4 (used for manually added peers) on literals: the address it hands to AddrList is the literal itself.
	for vi, v := range vs {
		lit := u32ip(v).String()
		func() {
			defer func() {
				if r := recover(); r != nil {
					col.add("C18.resolver.panic."+topFrame(), rankOf(5, 100, uint64(vi)), func() (string, any) { return fmt.Sprintf("ResolveIPv4(%q) panicked: %v", lit, r), lit })
				}
			}()
			ip, err := resolver.ResolveIPv4(ctx, time.Second, lit)
			n++
			if err == nil && !ip.Equal(u32ip(v)) { // an error here would be environmental, not a C18 matter
				col.add("C18.resolver.resolveipv4-literal", rankOf(5, 100, uint64(vi)), func() (string, any) {
					return fmt.Sprintf("ResolveIPv4(%q) = %v, %v; want the literal", lit, ip, err), lit
				})
			}
		}()
	}
	rep.Eval(n)
	rep.Extra["resolver_calls"] = n
	rep.Extra["resolver_blocked_literals"] = nBlocked
	rep.Extra["resolver_free_literals"] = nFree
	rep.Extra["resolver_port0"] = nPort0
	rep.Extra["resolver_ipv6_literals"] = nV6
	if nBlocked == 0 || nFree == 0 {
		rep.Vacuous("resolver part vacuous")
	}
	_ = net.IPv4len
}

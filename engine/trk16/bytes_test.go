//go:build verif

package trk16

import (
	"context"
	"errors"
	"fmt"
	"io"
	"net"
	"net/http"
	"net/url"
	"runtime"
	"strings"
	"sync"
	"sync/atomic"
	"testing"
	"time"

	"github.com/cenkalti/rain/v2/internal/logger"
	"github.com/cenkalti/rain/v2/internal/tracker"
	"github.com/cenkalti/rain/v2/internal/tracker/httptracker"
	"github.com/cenkalti/rain/v2/zzverif/core"
	"github.com/cenkalti/rain/v2/zzverif/refcodec"
)

// ---- scripted HTTP reply served from memory through the tracker's real http.Client

type httpReply struct {
	Status        int
	Body          []byte
	ContentLength int64 // declared; -1 = unknown (chunked / close-delimited)
	Unlimited     bool  // the body never ends (the harness stops it far beyond the limit)
	ReadErrAfter  int   // >0: the body fails with an I/O error after that many bytes
}

type countingBody struct {
	r         *httpReply
	off       int
	read      *atomic.Int64
	hardStop  int64
	closed    bool
	afterStop *atomic.Bool
}

func (b *countingBody) Read(p []byte) (int, error) {
	if b.closed {
		return 0, errors.New("read after close")
	}
	if len(p) == 0 {
		return 0, nil
	}
	if b.r.Unlimited {
		if b.read.Load() >= b.hardStop {
			b.afterStop.Store(true)
			return 0, errors.New("harness: endless body cut off")
		}
		for i := range p {
			p[i] = 'd' // an endless nest of dictionaries... any byte will do
		}
		b.read.Add(int64(len(p)))
		return len(p), nil
	}
	if b.r.ReadErrAfter > 0 && b.off >= b.r.ReadErrAfter {
		return 0, errors.New("scripted connection reset")
	}
	if b.off >= len(b.r.Body) {
		return 0, io.EOF
	}
	end := len(b.r.Body)
	if b.r.ReadErrAfter > 0 && end > b.r.ReadErrAfter {
		end = b.r.ReadErrAfter
	}
	n := copy(p, b.r.Body[b.off:end])
	b.off += n
	b.read.Add(int64(n))
	return n, nil
}

func (b *countingBody) Close() error { b.closed = true; return nil }

type memRT struct {
	reply     *httpReply
	read      atomic.Int64
	limit     int64
	afterStop atomic.Bool
	lastURL   string
}

func (m *memRT) RoundTrip(req *http.Request) (*http.Response, error) {
	m.lastURL = req.URL.String()
	r := m.reply
	h := http.Header{}
	h.Set("Content-Type", "text/plain")
	return &http.Response{
		Status: fmt.Sprintf("%d X", r.Status), StatusCode: r.Status, Proto: "HTTP/1.1", ProtoMajor: 1, ProtoMinor: 1,
		Header: h, ContentLength: r.ContentLength, Request: req,
		Body: &countingBody{r: r, read: &m.read, hardStop: m.limit*16 + (1 << 16), afterStop: &m.afterStop},
	}, nil
}

// ---- lattice

type lat struct {
	name string
	val  any // nil = key absent
}

func compactPeers(n int) []byte {
	b := make([]byte, n)
	for i := range b {
		b[i] = byte(10 + i)
	}
	return b
}

func peerDict(kv ...any) *refcodec.Dict { return refcodec.D(kv...) }

func httpPeersLattice() []lat {
	return []lat{
		{"absent", nil},
		{"compact0", compactPeers(0)},
		{"compact5", compactPeers(5)},
		{"compact6", compactPeers(6)},
		{"compact7", compactPeers(7)},
		{"compact12", compactPeers(12)},
		{"int", 7},
		{"dict", refcodec.D("ip", "1.2.3.4", "port", 6881)},
		{"list-empty", []any{}},
		{"list-ok", []any{peerDict("ip", "1.2.3.4", "port", 6881, "peer id", "-XX0000-aaaaaaaaaaaa")}},
		{"list-ok2", []any{peerDict("ip", "1.2.3.4", "port", 6881), peerDict("ip", "5.6.7.8", "port", 1)}},
		{"list-badip", []any{peerDict("ip", "not-an-ip", "port", 6881)}},
		{"list-hostname", []any{peerDict("ip", "tracker.example.com", "port", 6881)}},
		{"list-emptyip", []any{peerDict("ip", "", "port", 6881)}},
		{"list-noip", []any{peerDict("port", 6881)}},
		{"list-ipv6", []any{peerDict("ip", "2001:db8::1", "port", 6881)}},
		{"list-ip-int", []any{peerDict("ip", 16909060, "port", 6881)}},
		{"list-ok-then-badip", []any{peerDict("ip", "1.2.3.4", "port", 6881), peerDict("ip", "999.1.1.1", "port", 6881)}},
		{"list-port0", []any{peerDict("ip", "1.2.3.4", "port", 0)}},
		{"list-port65535", []any{peerDict("ip", "1.2.3.4", "port", 65535)}},
		{"list-port65536", []any{peerDict("ip", "1.2.3.4", "port", 65536)}},
		{"list-port-neg", []any{peerDict("ip", "1.2.3.4", "port", -1)}},
		{"list-port-str", []any{peerDict("ip", "1.2.3.4", "port", "6881")}},
		{"list-noport", []any{peerDict("ip", "1.2.3.4")}},
		{"list-of-int", []any{5}},
		{"list-of-str", []any{"abcdef"}},
		{"list-unterminated", refcodec.Raw("ld2:ip7:1.2.3.44:porti6881ee")},
	}
}

func httpIntervalLattice() []lat {
	return []lat{
		{"1800", 1800}, {"absent", nil}, {"0", 0}, {"1", 1}, {"-1", -1},
		{"max32", int64(2147483647)}, {"min32", int64(-2147483648)}, {"2^31", int64(2147483648)}, {"str", "1800"},
	}
}

type httpCase struct {
	Interval, Peers, Failure, ExtIP, MinInt, Shape, Frame string
	body                                                  []byte
	reply                                                 httpReply
}

func (c httpCase) String() string {
	return fmt.Sprintf("interval=%s peers=%s failure=%s external-ip=%s min-interval=%s shape=%s frame=%s", c.Interval, c.Peers, c.Failure, c.ExtIP, c.MinInt, c.Shape, c.Frame)
}

const httpLimit = 512 // configured maxResponseLength of the tracker under test

// wellFormedPeers is the reference notion of "a list of well-formed peer addresses".
func wellFormedPeers(peers []*net.TCPAddr) (key, desc string) {
	for i, p := range peers {
		switch {
		case p == nil:
			return "peer-nil", fmt.Sprintf("peer %d is a nil address", i)
		case p.IP == nil:
			return "peer-nil-ip", fmt.Sprintf("peer %d has a nil IP (port %d)", i, p.Port)
		case p.IP.To4() == nil:
			return "peer-not-ipv4", fmt.Sprintf("peer %d has the non-IPv4 address %v", i, p.IP)
		case len(p.IP) != net.IPv4len && len(p.IP) != net.IPv6len:
			return "peer-ip-length", fmt.Sprintf("peer %d has an IP of %d bytes", i, len(p.IP))
		case p.Port < 0 || p.Port > 65535:
			return "peer-port", fmt.Sprintf("peer %d has port %d", i, p.Port)
		}
	}
	return "", ""
}

type httpStats struct {
	mu                                 sync.Mutex
	ok, errs, withPeers, trackerErr    int64
	overLimitBodies, limitTruncated    int64
	statusErr, decodeErr, endlessCases int64
	maxRead                            int64
}

// runHTTPCase performs one Announce against the scripted reply and applies the oracles.
func runHTTPCase(vs *violSet, idx int64, st *httpStats, name string, reply httpReply, timeout time.Duration) {
	u, _ := url.Parse("http://10.0.0.1:80/announce")
	trk := httptracker.New("http://10.0.0.1:80/announce", u, timeout, &http.Transport{}, "c16", httpLimit)
	rt := &memRT{reply: &reply, limit: httpLimit}
	trk.VerifSetRoundTripper(rt)
	var resp *tracker.AnnounceResponse
	var err error
	func() {
		defer func() {
			if p := recover(); p != nil {
				fr := topRepoFrame()
				vs.add("C16.bytes.http.panic."+frameKey(fr), idx, fmt.Sprintf("HTTP reply {%s} body %q: panic %v at %s", name, clip(reply.Body), p, fr),
					map[string]any{"case": name, "body": string(reply.Body)})
				err = errors.New("panic")
			}
		}()
		resp, err = trk.Announce(context.Background(), tracker.AnnounceRequest{Torrent: tracker.Torrent{Port: 6881, BytesLeft: 1}, NumWant: 50, Event: tracker.EventStarted})
	}()
	read := rt.read.Load()
	st.mu.Lock()
	defer st.mu.Unlock()
	if read > st.maxRead {
		st.maxRead = read
	}
	// reading limit+1 bytes to find out that the body is too long is tolerated
	if read > httpLimit+1 {
		vs.add("C16.bytes.http.over-read", idx, fmt.Sprintf("HTTP reply {%s}: %d bytes were read from the reply body, configured limit %d", name, read, httpLimit),
			map[string]any{"case": name, "read": read, "limit": httpLimit})
	}
	if int64(len(reply.Body)) > httpLimit || reply.Unlimited {
		st.overLimitBodies++
		if read >= httpLimit {
			st.limitTruncated++
		}
	}
	if err == nil && resp == nil {
		vs.add("C16.bytes.http.nil-nil", idx, fmt.Sprintf("HTTP reply {%s} body %q: Announce returned neither a response nor an error", name, clip(reply.Body)), name)
		return
	}
	if err != nil {
		st.errs++
		var te *tracker.Error
		var se *httptracker.StatusError
		switch {
		case errors.As(err, &te):
			st.trackerErr++
		case errors.As(err, &se):
			st.statusErr++
		case errors.Is(err, tracker.ErrDecode):
			st.decodeErr++
		}
		if errors.Is(err, context.Canceled) {
			vs.add("C16.bytes.http.spurious-cancel", idx, fmt.Sprintf("HTTP reply {%s}: Announce returned context.Canceled although nothing was cancelled", name), name)
		}
		return
	}
	st.ok++
	if len(resp.Peers) > 0 {
		st.withPeers++
	}
	if k, d := wellFormedPeers(resp.Peers); k != "" {
		vs.add("C16.bytes.http."+k, idx, fmt.Sprintf("HTTP reply {%s} body %q: Announce accepted it and returned a peer list in which %s", name, clip(reply.Body), d),
			map[string]any{"case": name, "body": string(reply.Body)})
	}
}

func clip(b []byte) string {
	if len(b) > 160 {
		return string(b[:160]) + "..."
	}
	return string(b)
}

func TestC16Bytes(t *testing.T) {
	logger.Disable()
	rep := core.NewReport("C16", "bytes-http", "exploration")
	rep.Rule = "full product of a bencode lattice for HTTP announce replies (interval x peers[compact 0/5/6/7/12 bytes, dictionary-model lists with bad/empty/missing/IPv6/integer ip and ports -1/0/65535/65536/string/missing, non-list] " +
		"x failure reason/retry in x external ip x min interval) x top-level shape {dict, trailing garbage, truncated, unsorted keys} x framing {200 with exact Content-Length, 200 unknown length, 404, 500}; " +
		"plus non-dictionary and empty bodies, a body-size lattice around the configured limit (limit-1, limit, limit+1, 4*limit; declared Content-Length larger than the limit; endless body of unknown length; " +
		"I/O error in the middle); every reply is served through the tracker's real http.Client by an in-memory RoundTripper that counts the bytes read from the body. " +
		"Oracle: Announce returns an error, or a response whose peers all have a non-nil IPv4 address and a port in 0..65535; bytes read from the body <= limit (+1); no panic. Distinct = distinct (case description) strings."
	rep.Assumptions = []string{
		"the socket layer of net/http (http.Transport) is replaced by an in-memory RoundTripper through an in-package hook; http.Client, its time-out and all of HTTPTracker.Announce are the real code",
		"an implementation may read limit+1 bytes to detect an oversized body; only more than that counts as a read beyond the limit",
		"peer address byte values are taken from one representative pattern per length/shape class",
	}
	st := &httpStats{}
	vs := &violSet{}
	type job struct {
		idx   int64
		name  string
		reply httpReply
	}
	work := make(chan job, 1024)
	var wg sync.WaitGroup
	for w := 0; w < core.Parallelism(); w++ {
		wg.Add(1)
		go func() {
			defer wg.Done()
			for j := range work {
				runHTTPCase(vs, j.idx, st, j.name, j.reply, 10*time.Second)
			}
		}()
	}
	var nJobs int64
	var samples []string
	add := func(name string, r httpReply) {
		if nJobs%20011 == 0 {
			samples = append(samples, name)
		}
		work <- job{nJobs, name, r}
		nJobs++
	}

	failures := []struct {
		name string
		kv   []any
	}{
		{"none", nil},
		{"reason", []any{"failure reason", "torrent not registered"}},
		{"reason+retry5", []any{"failure reason", "overloaded", "retry in", "5"}},
		{"reason+retry-nan", []any{"failure reason", "overloaded", "retry in", "never"}},
		{"reason+retry-int", []any{"failure reason", "overloaded", "retry in", 5}},
		{"empty-reason", []any{"failure reason", ""}},
		{"reason-int", []any{"failure reason", 404}},
	}
	extips := []lat{{"absent", nil}, {"4bytes-eq-peer", []byte{10, 11, 12, 13}}, {"4bytes-1.2.3.4", []byte{1, 2, 3, 4}}, {"16bytes", make([]byte, 16)}, {"1byte", []byte{1}}, {"int", 5}}
	minints := []lat{{"absent", nil}, {"0", 0}, {"-1", -1}, {"60", 60}}
	shapes := []string{"dict", "trailing-garbage", "truncated", "unsorted"}
	frames := []string{"200-cl", "200-unknown-len", "404", "500"}
	if !core.Thorough() {
		// quick: the dimensions that do not touch the peer list are reduced to their boundary members
		failures = failures[:4]
		extips = extips[:3]
		minints = minints[:2]
		frames = frames[:3]
	}
	for _, iv := range httpIntervalLattice() {
		for _, pe := range httpPeersLattice() {
			for _, fl := range failures {
				for _, ex := range extips {
					for _, mi := range minints {
						d := refcodec.D("complete", 3, "incomplete", 4)
						if iv.val != nil {
							d.Set("interval", iv.val)
						}
						if pe.val != nil {
							d.Set("peers", pe.val)
						}
						for i := 0; i+1 < len(fl.kv); i += 2 {
							d.Set(fl.kv[i].(string), fl.kv[i+1])
						}
						if ex.val != nil {
							d.Set("external ip", ex.val)
						}
						if mi.val != nil {
							d.Set("min interval", mi.val)
						}
						for _, sh := range shapes {
							var body []byte
							switch sh {
							case "dict":
								body = refcodec.Benc(d)
							case "trailing-garbage":
								body = append(refcodec.Benc(d), "4:junk<html>"...)
							case "truncated":
								body = refcodec.Benc(d)
								body = body[:len(body)-1]
							case "unsorted":
								d2 := &refcodec.Dict{NoSort: true}
								for k := len(d.Keys) - 1; k >= 0; k-- { // reverse key order
									d2.Keys = append(d2.Keys, d.Keys[k])
									d2.Vals = append(d2.Vals, d.Vals[k])
								}
								body = refcodec.Benc(d2)
							}
							for _, fr := range frames {
								r := httpReply{Status: 200, Body: body, ContentLength: int64(len(body))}
								switch fr {
								case "200-unknown-len":
									r.ContentLength = -1
								case "404":
									r.Status = 404
								case "500":
									r.Status = 500
									r.ContentLength = -1
								}
								c := httpCase{Interval: iv.name, Peers: pe.name, Failure: fl.name, ExtIP: ex.name, MinInt: mi.name, Shape: sh, Frame: fr}
								add(c.String(), r)
							}
						}
					}
				}
			}
		}
	}
	nLattice := nJobs
	// non-dictionary / degenerate bodies
	for _, b := range []struct {
		name string
		body []byte
	}{
		{"empty", nil}, {"int", []byte("i5e")}, {"string", []byte("5:hello")}, {"list", []byte("l5:helloe")}, {"html", []byte("<html><body>503</body></html>")},
		{"empty-dict", []byte("de")}, {"just-d", []byte("d")}, {"nested-lists", []byte(strings.Repeat("l", 300) + strings.Repeat("e", 300))},
		{"nested-lists-open", []byte(strings.Repeat("l", 400))}, {"declared-1MiB-string", []byte("d5:peers1048576:abc")}, {"negative-string-len", []byte("d5:peers-5:abce")},
		{"dup-keys", []byte("d8:intervali1e8:intervali2e5:peers0:e")}, {"key-not-string", []byte("di1ei2ee")}, {"int-leading-zero", []byte("d8:intervali007e5:peers0:e")},
		{"int-minus-zero", []byte("d8:intervali-0e5:peers0:e")}, {"int-empty", []byte("d8:intervalie5:peers0:e")}, {"peers-dict-in-list-open", []byte("d5:peersld2:ip7:1.2.3.4")},
	} {
		for _, status := range []int{200, 404} {
			for _, cl := range []string{"exact", "unknown"} {
				r := httpReply{Status: status, Body: b.body, ContentLength: int64(len(b.body))}
				if cl == "unknown" {
					r.ContentLength = -1
				}
				add(fmt.Sprintf("degenerate=%s status=%d len=%s", b.name, status, cl), r)
			}
		}
	}
	// size lattice around the limit: a valid reply padded by a long warning message
	mkSized := func(n int) []byte {
		for pad := 0; pad <= n; pad++ {
			b := refcodec.Benc(refcodec.D("interval", 1800, "peers", compactPeers(6), "warning message", strings.Repeat("w", pad)))
			if len(b) == n {
				return b
			}
		}
		// the length prefix gained a digit exactly here: pad inside the peers string instead
		for pad := 0; pad <= n; pad++ {
			b := refcodec.Benc(refcodec.D("interval", 1800, "peers", compactPeers(6*(1+pad%3)), "warning message", strings.Repeat("w", pad)))
			if len(b) == n {
				return b
			}
		}
		core.HarnessError("cannot build a body of %d bytes", n)
		return nil
	}
	for _, n := range []int{httpLimit - 1, httpLimit, httpLimit + 1, httpLimit + 2, 4 * httpLimit, 64 * httpLimit} {
		body := mkSized(n)
		for _, cl := range []string{"exact", "unknown", "declared-smaller", "declared-huge"} {
			r := httpReply{Status: 200, Body: body, ContentLength: int64(len(body))}
			switch cl {
			case "unknown":
				r.ContentLength = -1
			case "declared-smaller":
				r.ContentLength = 10 // a lying header; net/http itself would cut the body, the RoundTripper does not
			case "declared-huge":
				r.ContentLength = 1 << 40
			}
			add(fmt.Sprintf("size=%d (limit %d) content-length=%s", n, httpLimit, cl), r)
		}
	}
	add("small body, declared Content-Length 1<<40", httpReply{Status: 200, Body: mkSized(100), ContentLength: 1 << 40})
	add("endless body, unknown length, 200", httpReply{Status: 200, ContentLength: -1, Unlimited: true})
	add("endless body, unknown length, 404", httpReply{Status: 404, ContentLength: -1, Unlimited: true})
	add("endless body, declared length = limit", httpReply{Status: 200, ContentLength: httpLimit, Unlimited: true})
	for _, k := range []int{1, 20, httpLimit - 1} {
		add(fmt.Sprintf("I/O error after %d bytes", k), httpReply{Status: 200, Body: mkSized(httpLimit), ContentLength: httpLimit, ReadErrAfter: k})
	}
	close(work)
	wg.Wait()

	// the same through the real http.Transport (HTTP/1.1 parser, chunked decoding) over an in-memory pipe
	nPipe, pipeMax := httpOverPipe(vs, nJobs, st)
	nJobs += nPipe

	// observation (not an oracle of C16): memory allocated for a 22-byte reply that declares a 2 GiB string
	var m0, m1 runtime.MemStats
	runtime.ReadMemStats(&m0)
	runHTTPCase(vs, nJobs, st, "degenerate=declared-2GiB-string status=200 len=exact", httpReply{Status: 200, Body: []byte("d5:peers2147483647:abc"), ContentLength: 22}, 10*time.Second)
	nJobs++
	runtime.ReadMemStats(&m1)
	rep.Extra["observation_bytes_allocated_for_22_byte_reply_declaring_2GiB_string"] = int64(m1.TotalAlloc - m0.TotalAlloc)

	vs.flush(rep)
	for _, sname := range samples {
		rep.Sample(10, sname)
	}
	rep.Evaluations = nJobs
	rep.Distinct = nJobs
	rep.Extra["lattice_cases"] = nLattice
	rep.Extra["cases_through_real_http_transport_over_pipe"] = nPipe
	rep.Extra["max_body_bytes_taken_from_the_pipe"] = pipeMax
	rep.Extra["announce_ok"] = st.ok
	rep.Extra["announce_ok_with_peers"] = st.withPeers
	rep.Extra["announce_error"] = st.errs
	rep.Extra["tracker_failure_errors"] = st.trackerErr
	rep.Extra["http_status_errors"] = st.statusErr
	rep.Extra["decode_errors"] = st.decodeErr
	rep.Extra["bodies_longer_than_limit"] = st.overLimitBodies
	rep.Extra["bodies_longer_than_limit_read_up_to_limit"] = st.limitTruncated
	rep.Extra["max_bytes_read_from_a_body"] = st.maxRead
	rep.Extra["configured_limit"] = int64(httpLimit)
	if st.ok == 0 || st.withPeers == 0 || st.trackerErr == 0 || st.decodeErr == 0 || st.overLimitBodies == 0 || st.limitTruncated == 0 || nPipe == 0 {
		rep.Vacuous("vacuous HTTP bytes run: %+v", st)
	}
	rep.Finish()
}

// ---- the same tracker over the real http.Transport: raw HTTP/1.1 bytes served through net.Pipe

type pipeCase struct {
	name    string
	head    string // status line + headers, without the final blank line
	body    []byte
	chunked bool
	endless bool
}

// httpOverPipe runs a few replies through http.Transport itself (the hook is not used). The pipe is
// synchronous, so the bytes the scripted server managed to write are exactly the bytes the client took.
func httpOverPipe(vs *violSet, baseIdx int64, st *httpStats) (n int64, maxBody int64) {
	okBody := refcodec.Benc(refcodec.D("interval", 1800, "peers", compactPeers(12)))
	badBody := refcodec.Benc(refcodec.D("interval", 1800, "peers", []any{peerDict("ip", "not-an-ip", "port", 6881)}))
	big := refcodec.Benc(refcodec.D("interval", 1800, "peers", compactPeers(6), "warning message", strings.Repeat("w", 8*httpLimit)))
	cases := []pipeCase{
		{name: "pipe: 200, Content-Length exact, compact peers", head: fmt.Sprintf("HTTP/1.1 200 OK\r\nContent-Length: %d", len(okBody)), body: okBody},
		{name: "pipe: 200, chunked, compact peers", head: "HTTP/1.1 200 OK\r\nTransfer-Encoding: chunked", body: okBody, chunked: true},
		{name: "pipe: 200, chunked, dictionary peers with unparsable ip", head: "HTTP/1.1 200 OK\r\nTransfer-Encoding: chunked", body: badBody, chunked: true},
		{name: "pipe: 200, Content-Length larger than the limit", head: fmt.Sprintf("HTTP/1.1 200 OK\r\nContent-Length: %d", len(big)), body: big},
		{name: "pipe: 200, chunked body larger than the limit", head: "HTTP/1.1 200 OK\r\nTransfer-Encoding: chunked", body: big, chunked: true},
		{name: "pipe: 200, endless chunked body", head: "HTTP/1.1 200 OK\r\nTransfer-Encoding: chunked", chunked: true, endless: true},
		{name: "pipe: 200, endless close-delimited body", head: "HTTP/1.0 200 OK", endless: true},
		{name: "pipe: 404, endless chunked body", head: "HTTP/1.1 404 Not Found\r\nTransfer-Encoding: chunked", chunked: true, endless: true},
		{name: "pipe: 200, Content-Length 2^62, endless", head: "HTTP/1.1 200 OK\r\nContent-Length: 4611686018427387904", endless: true},
		{name: "pipe: 200, negative Content-Length", head: "HTTP/1.1 200 OK\r\nContent-Length: -5", body: okBody},
		{name: "pipe: garbage status line", head: "ICY 200 OK", body: okBody},
		{name: "pipe: connection closed before any byte", head: ""},
	}
	for i, c := range cases {
		c := c
		var bodyBytes atomic.Int64
		tr := &http.Transport{DisableKeepAlives: true}
		serverDone := make(chan struct{})
		tr.DialContext = func(ctx context.Context, network, addr string) (net.Conn, error) {
			cli, srv := net.Pipe()
			go func() {
				defer close(serverDone)
				defer srv.Close()
				// swallow the request head
				buf := make([]byte, 1)
				var last4 [4]byte
				for {
					if _, err := srv.Read(buf); err != nil {
						return
					}
					last4 = [4]byte{last4[1], last4[2], last4[3], buf[0]}
					if string(last4[:]) == "\r\n\r\n" {
						break
					}
				}
				if c.head == "" {
					return
				}
				if _, err := srv.Write([]byte(c.head + "\r\n\r\n")); err != nil {
					return
				}
				writeBody := func(b []byte) bool {
					if c.chunked {
						if _, err := srv.Write([]byte(fmt.Sprintf("%x\r\n", len(b)))); err != nil {
							return false
						}
					}
					for len(b) > 0 { // byte-granular accounting: write in small pieces
						k := 64
						if k > len(b) {
							k = len(b)
						}
						m, err := srv.Write(b[:k])
						bodyBytes.Add(int64(m))
						if err != nil {
							return false
						}
						b = b[k:]
					}
					if c.chunked {
						if _, err := srv.Write([]byte("\r\n")); err != nil {
							return false
						}
					}
					return true
				}
				if c.endless {
					blk := []byte(strings.Repeat("d", 256))
					for bodyBytes.Load() < 1<<22 {
						if !writeBody(blk) {
							return
						}
					}
					return
				}
				if len(c.body) > 0 && !writeBody(c.body) {
					return
				}
				if c.chunked {
					srv.Write([]byte("0\r\n\r\n"))
				}
			}()
			return cli, nil
		}
		u, _ := url.Parse("http://10.0.0.1:80/announce")
		trk := httptracker.New("http://10.0.0.1:80/announce", u, time.Hour, tr, "c16", httpLimit)
		var resp *tracker.AnnounceResponse
		var err error
		idx := baseIdx + int64(i)
		func() {
			defer func() {
				if p := recover(); p != nil {
					fr := topRepoFrame()
					vs.add("C16.bytes.http.panic."+frameKey(fr), idx, fmt.Sprintf("%s: panic %v at %s", c.name, p, fr), c.name)
					err = errors.New("panic")
				}
			}()
			resp, err = trk.Announce(context.Background(), tracker.AnnounceRequest{Torrent: tracker.Torrent{Port: 6881}, NumWant: 50})
		}()
		tr.CloseIdleConnections()
		<-serverDone
		n++
		got := bodyBytes.Load()
		if got > maxBody {
			maxBody = got
		}
		// http.Transport reads the socket through a 4 KiB bufio.Reader; chunk framing adds a few bytes per 256
		if got > httpLimit+4096+1024 {
			vs.add("C16.bytes.http.over-read", idx, fmt.Sprintf("%s: the client took %d body bytes from the connection, configured limit %d (+4 KiB transport buffer)", c.name, got, httpLimit), c.name)
		}
		if err == nil && resp == nil {
			vs.add("C16.bytes.http.nil-nil", idx, c.name+": Announce returned neither a response nor an error", c.name)
		}
		if err == nil && resp != nil {
			st.ok++
			if k, d := wellFormedPeers(resp.Peers); k != "" {
				vs.add("C16.bytes.http."+k, idx, fmt.Sprintf("%s: Announce accepted it and returned a peer list in which %s", c.name, d), c.name)
			}
		}
	}
	return n, maxBody
}

//go:build verif

package trk16

import (
	"context"
	"encoding/binary"
	"encoding/json"
	"errors"
	"fmt"
	"net"
	"net/url"
	"sort"
	"strings"
	"sync/atomic"
	"testing"
	"testing/synctest"
	"time"

	"github.com/cenkalti/rain/v2/internal/announcer"
	"github.com/cenkalti/rain/v2/internal/logger"
	"github.com/cenkalti/rain/v2/internal/tracker"
	"github.com/cenkalti/rain/v2/internal/tracker/udptracker"
	"github.com/cenkalti/rain/v2/zzverif/core"
	"github.com/cenkalti/rain/v2/zzverif/refcodec"
	"github.com/cenkalti/rain/v2/zzverif/vnet"
	"github.com/cenkalti/rain/v2/zzverif/vrand"
)

// ---- reference BEP 15 codec (independent of rain's)

const bep15Magic = 0x41727101980

type udpSeen struct {
	Kind   string // "connect" | "announce" | "other"
	Txid   uint32
	ConnID uint64
	Req    int // announce: request index derived from the info hash (first byte - 1)
	Event  uint32
	Len    int
}

func parseClientDatagram(b []byte) udpSeen {
	if len(b) < 16 {
		return udpSeen{Kind: "other", Len: len(b)}
	}
	connID := binary.BigEndian.Uint64(b[0:8])
	action := binary.BigEndian.Uint32(b[8:12])
	txid := binary.BigEndian.Uint32(b[12:16])
	switch {
	case action == 0 && len(b) == 16 && connID == bep15Magic:
		return udpSeen{Kind: "connect", Txid: txid, ConnID: connID, Len: len(b)}
	case action == 1 && len(b) >= 98:
		return udpSeen{Kind: "announce", Txid: txid, ConnID: connID, Req: int(b[16]) - 1, Event: binary.BigEndian.Uint32(b[80:84]), Len: len(b)}
	}
	return udpSeen{Kind: "other", Txid: txid, Len: len(b)}
}

func udpConnectReply(txid uint32, connID uint64) []byte {
	b := make([]byte, 16)
	binary.BigEndian.PutUint32(b[0:], 0)
	binary.BigEndian.PutUint32(b[4:], txid)
	binary.BigEndian.PutUint64(b[8:], connID)
	return b
}

func udpAnnounceReply(txid uint32, interval int32, peers []byte) []byte {
	b := make([]byte, 20, 20+len(peers))
	binary.BigEndian.PutUint32(b[0:], 1)
	binary.BigEndian.PutUint32(b[4:], txid)
	binary.BigEndian.PutUint32(b[8:], uint32(interval))
	binary.BigEndian.PutUint32(b[12:], 5)
	binary.BigEndian.PutUint32(b[16:], 7)
	return append(b, peers...)
}

func udpErrorReply(txid uint32, payload []byte) []byte {
	b := make([]byte, 8, 8+len(payload))
	binary.BigEndian.PutUint32(b[0:], 3)
	binary.BigEndian.PutUint32(b[4:], txid)
	return append(b, payload...)
}

// ---- one execution of the transport lab

type trOp struct {
	Kind string `json:"op"` // start | cancel | conn | ann | dup | time61 | close
	K    int    `json:"k,omitempty"`
	V    string `json:"v,omitempty"` // reply variant
}

func (o trOp) String() string {
	switch o.Kind {
	case "start", "cancel":
		return fmt.Sprintf("%s(%d)", o.Kind, o.K)
	case "conn":
		return "connect-reply:" + o.V
	case "ann":
		return fmt.Sprintf("announce-reply(%d):%s", o.K, o.V)
	}
	return o.Kind
}

func trOpsString(ops []trOp) string {
	var s []string
	for _, o := range ops {
		s = append(s, o.String())
	}
	return strings.Join(s, " ; ")
}

type trInjected struct {
	Data     []byte
	Txid     uint32
	Kind     string // conn-ok, ann-ok, error, other
	Interval int32
	Msg      string
}

type trRequest struct {
	ctx       context.Context
	cancel    context.CancelFunc
	cancelled bool
	returned  atomic.Bool
	resp      *tracker.AnnounceResponse
	err       error
	checked   bool     // return already examined by the oracles
	annTxids  []uint32 // announce transaction ids seen on the wire for this request
	answered  map[uint32]bool
	answeredWell map[uint32]bool // answered by a well-formed announce reply or error packet (the transaction is over)
}

type trLab struct {
	tr         *udptracker.Transport
	conn       *vnet.UDPConn
	runDone    chan struct{}
	runPanic   string
	reqs       []*trRequest
	connTxids  []uint32
	connAnswer map[uint32]bool
	injected   []trInjected
	closed     bool
	nextConnID uint64
	nextIval   int32
	nextMsg    int
	unknownTx  uint32
	sentTotal  int
	viol       func(key, desc string)
	foreign    int64 // returns with context.Canceled whose own context was live
	okReturns  int64
	errReturns int64
}

const trDest = "10.0.0.1:6969"

func newTrLab(viol func(key, desc string)) *trLab {
	vnet.Reset()
	vrand.Reset()
	l := &trLab{viol: viol, connAnswer: map[uint32]bool{}, runDone: make(chan struct{}), nextConnID: 0x1111000000000000, nextIval: 1000, unknownTx: 0x7f000000}
	l.tr = udptracker.NewTransport(nil, time.Second)
	go func() {
		defer close(l.runDone)
		defer func() {
			if p := recover(); p != nil {
				l.runPanic = fmt.Sprintf("%v at %s", p, topRepoFrame())
			}
		}()
		l.tr.Run()
	}()
	synctest.Wait()
	if len(vnet.W.UDP) != 1 {
		core.HarnessError("transport lab: expected one UDP socket, have %d (is this binary built with the lab overlay?)", len(vnet.W.UDP))
	}
	l.conn = vnet.W.UDP[0]
	return l
}

// settle waits for quiescence and reads what the transport sent.
func (l *trLab) settle() {
	synctest.Wait()
	for _, d := range l.conn.TakeSent() {
		l.sentTotal++
		if d.To != trDest {
			l.viol("C16.transport.wrong-destination", "datagram sent to "+d.To+" instead of "+trDest)
		}
		s := parseClientDatagram(d.Data)
		switch s.Kind {
		case "connect":
			known := false
			for _, t := range l.connTxids {
				known = known || t == s.Txid
			}
			if !known {
				l.connTxids = append(l.connTxids, s.Txid)
			}
		case "announce":
			if s.Req < 0 || s.Req >= len(l.reqs) {
				core.HarnessError("transport lab: announce datagram for unknown request %d", s.Req)
			}
			r := l.reqs[s.Req]
			known := false
			for _, t := range r.annTxids {
				known = known || t == s.Txid
			}
			if !known {
				r.annTxids = append(r.annTxids, s.Txid)
			}
			if r.answeredWell[s.Txid] {
				// C15: an announce (with its event) that the tracker has answered is not sent again
				l.viol("C15.udp.retransmit-after-answer", fmt.Sprintf("request %d: the announce datagram of transaction %#x was sent again after the tracker had answered it with a well-formed reply", s.Req, s.Txid))
			}
		default:
			core.HarnessError("transport lab: unparsable client datagram of %d bytes", s.Len)
		}
	}
}

func (l *trLab) start(k int, viaTracker bool) {
	if k != len(l.reqs) {
		core.HarnessError("transport lab: start out of order")
	}
	r := &trRequest{answered: map[uint32]bool{}}
	r.ctx, r.cancel = context.WithCancel(context.Background())
	l.reqs = append(l.reqs, r)
	u, _ := url.Parse("udp://" + trDest + "/announce")
	trk := udptracker.New("udp://"+trDest+"/announce", u, l.tr)
	var ih [20]byte
	ih[0] = byte(k + 1)
	go func() {
		resp, err := trk.Announce(r.ctx, tracker.AnnounceRequest{Torrent: tracker.Torrent{InfoHash: ih, Port: 6881, BytesLeft: 1}, Event: tracker.EventStarted, NumWant: 50})
		r.resp, r.err = resp, err
		r.returned.Store(true)
	}()
}

func (l *trLab) openConnTxid() (uint32, bool) {
	for i := len(l.connTxids) - 1; i >= 0; i-- {
		if !l.connAnswer[l.connTxids[i]] {
			return l.connTxids[i], true
		}
	}
	return 0, false
}

func (r *trRequest) openAnnTxid() (uint32, bool) {
	for i := len(r.annTxids) - 1; i >= 0; i-- {
		if !r.answered[r.annTxids[i]] {
			return r.annTxids[i], true
		}
	}
	return 0, false
}

func (l *trLab) inject(in trInjected) {
	l.injected = append(l.injected, in)
	l.conn.Inject(in.Data)
}

// enabled lists the operations that make sense in the current harness-visible state.
func (l *trLab) enabled(maxReq int, ops []trOp) []trOp {
	var out []trOp
	if l.closed {
		return nil
	}
	if len(l.reqs) < maxReq {
		out = append(out, trOp{Kind: "start", K: len(l.reqs)})
	}
	for k, r := range l.reqs {
		if !r.cancelled && !r.returned.Load() {
			out = append(out, trOp{Kind: "cancel", K: k})
		}
	}
	if _, ok := l.openConnTxid(); ok {
		for _, v := range []string{"ok", "short", "erraction", "badaction", "wrongtxid"} {
			out = append(out, trOp{Kind: "conn", V: v})
		}
	}
	for k, r := range l.reqs {
		if _, ok := r.openAnnTxid(); ok && !r.returned.Load() {
			for _, v := range []string{"ok", "short", "erraction", "wrongtxid"} {
				out = append(out, trOp{Kind: "ann", K: k, V: v})
			}
		}
	}
	if len(l.injected) > 0 && (len(ops) == 0 || ops[len(ops)-1].Kind != "dup") {
		out = append(out, trOp{Kind: "dup"})
	}
	nTime := 0
	for _, o := range ops {
		if o.Kind == "time61" {
			nTime++
		}
	}
	if nTime < 2 && len(l.reqs) > 0 {
		out = append(out, trOp{Kind: "time61"})
	}
	out = append(out, trOp{Kind: "close"})
	return out
}

// apply executes one operation and returns the transaction id of the datagram it injected (if any)
// together with the set of requests that are entitled to return because of it.
func (l *trLab) apply(op trOp) (injTx uint32, injected bool) {
	switch op.Kind {
	case "start":
		l.start(op.K, true)
	case "cancel":
		r := l.reqs[op.K]
		r.cancelled = true
		r.cancel()
	case "conn":
		tx, ok := l.openConnTxid()
		if !ok {
			core.HarnessError("transport lab: conn op without an open connect transaction")
		}
		in := trInjected{Txid: tx, Kind: "other"}
		switch op.V {
		case "ok":
			l.nextConnID++
			in.Data, in.Kind = udpConnectReply(tx, l.nextConnID), "conn-ok"
		case "short":
			in.Data = udpConnectReply(tx, 0)[:12]
		case "erraction":
			l.nextMsg++
			in.Msg = fmt.Sprintf("scripted-%d", l.nextMsg)
			in.Data, in.Kind = udpErrorReply(tx, refcodec.Benc(refcodec.D("failure reason", in.Msg))), "error"
		case "badaction":
			in.Data = udpConnectReply(tx, 5)
			binary.BigEndian.PutUint32(in.Data[0:], 1)
		case "wrongtxid":
			l.unknownTx++
			l.nextConnID++
			in.Txid = l.unknownTx
			in.Data = udpConnectReply(in.Txid, l.nextConnID)
		}
		if op.V != "wrongtxid" {
			l.connAnswer[tx] = true
		}
		l.inject(in)
		return in.Txid, true
	case "ann":
		r := l.reqs[op.K]
		tx, ok := r.openAnnTxid()
		if !ok {
			core.HarnessError("transport lab: ann op without an open announce transaction")
		}
		in := trInjected{Txid: tx, Kind: "other"}
		switch op.V {
		case "ok":
			l.nextIval++
			in.Interval = l.nextIval
			in.Data, in.Kind = udpAnnounceReply(tx, in.Interval, []byte{10, 1, 1, byte(op.K + 1), 0x1a, 0xe1}), "ann-ok"
		case "short":
			in.Data = udpAnnounceReply(tx, 1, nil)[:12]
		case "erraction":
			l.nextMsg++
			in.Msg = fmt.Sprintf("scripted-%d", l.nextMsg)
			in.Data, in.Kind = udpErrorReply(tx, refcodec.Benc(refcodec.D("failure reason", in.Msg))), "error"
		case "wrongtxid":
			l.unknownTx++
			l.nextIval++
			in.Txid, in.Interval = l.unknownTx, l.nextIval
			in.Data, in.Kind = udpAnnounceReply(in.Txid, in.Interval, []byte{10, 9, 9, 9, 0x1a, 0xe1}), "ann-ok"
		}
		if op.V != "wrongtxid" {
			r.answered[tx] = true
		}
		if op.V == "ok" || op.V == "erraction" {
			if r.answeredWell == nil {
				r.answeredWell = map[uint32]bool{}
			}
			r.answeredWell[tx] = true
		}
		l.inject(in)
		return in.Txid, true
	case "dup":
		in := l.injected[len(l.injected)-1]
		l.inject(in)
		return in.Txid, true
	case "time61":
		time.Sleep(61 * time.Second)
	case "close":
		l.closed = true
		done := make(chan struct{})
		go func() { l.tr.Close(); close(done) }()
		synctest.Wait()
		select {
		case <-done:
		default:
			l.viol("C16.transport.close-blocks", "Transport.Close did not return")
		}
	}
	return 0, false
}

// check applies the oracles after an operation.
func (l *trLab) check(op trOp, injTx uint32, injected bool) {
	if l.runPanic != "" {
		l.viol("C16.transport.panic."+frameKey(strings.SplitN(l.runPanic, " at ", 2)[1]), "Transport.Run panicked: "+l.runPanic)
		l.runPanic = ""
	}
	isConnTx := func(tx uint32) bool {
		for _, t := range l.connTxids {
			if t == tx {
				return true
			}
		}
		return false
	}
	for k, r := range l.reqs {
		if !r.returned.Load() {
			if r.cancelled {
				l.viol("C16.transport.blocked-after-cancel", fmt.Sprintf("request %d: its context is cancelled but Announce has not returned at quiescence", k))
			} else if l.closed {
				l.viol("C16.transport.blocked-after-close", fmt.Sprintf("request %d: the transport is closed but Announce has not returned at quiescence", k))
			}
			continue
		}
		if r.checked {
			continue
		}
		r.checked = true
		owns := func(tx uint32) bool {
			for _, t := range r.annTxids {
				if t == tx {
					return true
				}
			}
			return false
		}
		// (a) a datagram may only make the request return whose transaction id it carries
		// (a connect transaction is shared by every request waiting for that connection)
		if injected && !owns(injTx) && !isConnTx(injTx) {
			l.viol("C16.transport.reply-for-other-transaction", fmt.Sprintf("request %d returned (%v, %v) right after a datagram with transaction id %#x, which is neither its own announce transaction %#x nor a connect transaction",
				k, respString(r.resp), r.err, injTx, r.annTxids))
		}
		switch {
		case r.err == nil && r.resp == nil:
			l.viol("C16.transport.nil-nil", fmt.Sprintf("request %d: Announce returned neither response nor error", k))
		case r.err == nil:
			l.okReturns++
			// (b) a successful reply must be one that was sent for this request's transaction
			found := false
			for _, in := range l.injected {
				if in.Kind == "ann-ok" && owns(in.Txid) && time.Duration(in.Interval)*time.Second == r.resp.Interval {
					found = true
				}
			}
			if !found {
				l.viol("C16.transport.reply-for-other-transaction", fmt.Sprintf("request %d returned the reply with interval %v, but no announce reply with that content was sent for its transaction ids %#x", k, r.resp.Interval, r.annTxids))
			}
			if key, d := wellFormedPeers(r.resp.Peers); key != "" || len(r.resp.Peers) != 1 || len(r.resp.Peers[0].IP) != 4 || int(r.resp.Peers[0].IP[3]) != k+1 {
				l.viol("C16.transport.reply-content", fmt.Sprintf("request %d: peer list %v does not match the reply sent to it (%s)", k, r.resp.Peers, d))
			}
		default:
			l.errReturns++
			var te *tracker.Error
			if errors.As(r.err, &te) {
				found := false
				for _, in := range l.injected {
					if in.Kind == "error" && in.Msg == te.FailureReason && (owns(in.Txid) || isConnTx(in.Txid)) {
						found = true
					}
				}
				if !found {
					l.viol("C16.transport.reply-for-other-transaction", fmt.Sprintf("request %d returned tracker error %q, which was not sent for its transactions", k, te.FailureReason))
				}
			}
			if errors.Is(r.err, context.Canceled) && !r.cancelled {
				l.foreign++
			}
		}
	}
}

func respString(r *tracker.AnnounceResponse) string {
	if r == nil {
		return "<nil>"
	}
	return fmt.Sprintf("{interval %v, %d peers}", r.Interval, len(r.Peers))
}

// finish cancels everything, closes the transport and checks that every call returns.
func (l *trLab) finish() {
	for _, r := range l.reqs {
		if !r.cancelled {
			r.cancelled = true
			r.cancel()
		}
	}
	l.settle()
	l.check(trOp{Kind: "finish"}, 0, false)
	if !l.closed {
		l.apply(trOp{Kind: "close"})
		l.settle()
		l.check(trOp{Kind: "close"}, 0, false)
	}
	select {
	case <-l.runDone:
	default:
		l.viol("C16.transport.close-blocks", "Transport.Run still running after Close")
	}
}

type trRunResult struct {
	enabled   []trOp
	foreign   int64
	foreignAt string
	ok, errs  int64
	sent      int
}

// runTransport executes ops in a fresh bubble world. Oracles are applied after every operation.
func runTransport(ops []trOp, maxReq int, viol func(key, desc string)) (res trRunResult) {
	l := newTrLab(viol)
	for i, op := range ops {
		tx, inj := l.apply(op)
		l.settle()
		l.check(op, tx, inj)
		if l.foreign > 0 && res.foreignAt == "" {
			res.foreignAt = trOpsString(ops[:i+1])
		}
	}
	res.enabled = l.enabled(maxReq, ops)
	l.finish()
	res.foreign, res.ok, res.errs, res.sent = l.foreign, l.okReturns, l.errReturns, l.sentTotal
	return res
}

// ---- sharded depth-first enumeration

type trJob struct {
	Prefix []trOp `json:"prefix"`
	Depth  int    `json:"depth"`
	MaxReq int    `json:"max_req"`
	Mode   string `json:"mode"` // "transport" | "composed"
}

type trViol struct {
	Desc  string `json:"desc"`
	Ops   []trOp `json:"ops"`
	Count int64  `json:"count"`
}

type trAgg struct {
	Execs     int64              `json:"execs"`
	Leaves    int64              `json:"leaves"`
	Steps     int64              `json:"steps"`
	Foreign   int64              `json:"foreign"`
	ForeignAt string             `json:"foreign_at"`
	OK        int64              `json:"ok"`
	Errs      int64              `json:"errs"`
	Sent      int64              `json:"sent"`
	Viol      map[string]*trViol `json:"viol"`
	Stuck     int64              `json:"stuck"`
	Working   int64              `json:"working"`
}

func (a *trAgg) addViol(key, desc string, ops []trOp, count int64) {
	if a.Viol == nil {
		a.Viol = map[string]*trViol{}
	}
	v, ok := a.Viol[key]
	if !ok {
		a.Viol[key] = &trViol{Desc: desc, Ops: append([]trOp{}, ops...), Count: count}
		return
	}
	v.Count += count
	if len(ops) < len(v.Ops) {
		v.Desc, v.Ops = desc, append([]trOp{}, ops...)
	}
}

func (a *trAgg) merge(b *trAgg) {
	a.Execs += b.Execs
	a.Leaves += b.Leaves
	a.Steps += b.Steps
	a.Foreign += b.Foreign
	if a.ForeignAt == "" || (b.ForeignAt != "" && len(b.ForeignAt) < len(a.ForeignAt)) {
		a.ForeignAt = b.ForeignAt
	}
	a.OK += b.OK
	a.Errs += b.Errs
	a.Sent += b.Sent
	a.Stuck += b.Stuck
	a.Working += b.Working
	for k, v := range b.Viol {
		a.addViol(k, v.Desc, v.Ops, v.Count)
	}
}

// trExec runs one operation sequence in its own bubble and folds the outcome into ag.
func trExec(t *testing.T, ag *trAgg, mode string, ops []trOp, maxReq int) []trOp {
	var enabled []trOp
	synctest.Test(t, func(t *testing.T) {
		viol := func(key, desc string) {
			ag.addViol(key, fmt.Sprintf("history [%s]: %s", trOpsString(ops), desc), ops, 1)
		}
		if strings.HasPrefix(mode, "composed") {
			// the back-off jitter of the two announcers is owned: A early / B late, or the reverse
			q := []float64{0, 1}
			if mode == "composed-hi-lo" {
				q = []float64{1, 0}
			}
			enabled = runComposed(ops, q, viol, ag)
			return
		}
		res := runTransport(ops, maxReq, viol)
		enabled = res.enabled
		ag.Foreign += res.foreign
		if res.foreign > 0 && (ag.ForeignAt == "" || len(res.foreignAt) < len(ag.ForeignAt)) {
			ag.ForeignAt = res.foreignAt
		}
		ag.OK += res.ok
		ag.Errs += res.errs
		ag.Sent += int64(res.sent)
	})
	ag.Execs++
	ag.Steps += int64(len(ops))
	return enabled
}

func trDFS(t *testing.T, ag *trAgg, mode string, prefix []trOp, depth, maxReq int, collect *[][]trOp, collectAt int) {
	enabled := trExec(t, ag, mode, prefix, maxReq)
	if len(prefix) >= depth || len(enabled) == 0 {
		ag.Leaves++
		return
	}
	if collect != nil && len(prefix) == collectAt {
		*collect = append(*collect, append([]trOp{}, prefix...))
		return
	}
	for _, op := range enabled {
		trDFS(t, ag, mode, append(append([]trOp{}, prefix...), op), depth, maxReq, collect, collectAt)
	}
}

func trWorker(t *testing.T, job core.Job) json.RawMessage {
	var j trJob
	if err := json.Unmarshal(job.Data, &j); err != nil {
		core.HarnessError("bad job: %v", err)
	}
	ag := &trAgg{}
	// the prefix itself was executed by the coordinator: descend into its children only
	var enabled []trOp
	probe := &trAgg{}
	enabled = trExec(t, probe, j.Mode, j.Prefix, j.MaxReq)
	for _, op := range enabled {
		trDFS(t, ag, j.Mode, append(append([]trOp{}, j.Prefix...), op), j.Depth, j.MaxReq, nil, 0)
	}
	b, _ := json.Marshal(ag)
	return b
}

// trExplore runs the whole bounded space of one mode: the coordinator enumerates the tree down to
// splitAt (serially, in-process), worker processes enumerate the subtrees.
func trExplore(t *testing.T, rep *core.Report, testName, mode string, depth, maxReq, splitAt int) *trAgg {
	total := &trAgg{}
	var prefixes [][]trOp
	trDFS(t, total, mode, nil, depth, maxReq, &prefixes, splitAt)
	var jobs []core.Job
	for i, p := range prefixes {
		b, _ := json.Marshal(trJob{Prefix: p, Depth: depth, MaxReq: maxReq, Mode: mode})
		jobs = append(jobs, core.Job{ID: i, Data: b})
	}
	if len(jobs) == 0 {
		return total
	}
	results := core.RunSharded(testName, jobs, 20*time.Minute)
	sort.Slice(results, func(a, b int) bool { return results[a].ID < results[b].ID })
	for _, r := range results {
		if r.Hang {
			rep.Cap(fmt.Sprintf("%s shard %d exceeded its wall budget", mode, r.ID))
			continue
		}
		if r.Crash != "" {
			key := "C16." + strings.SplitN(mode, "-", 2)[0] + ".crash"
			if i := strings.Index(r.Crash, "panic: "); i >= 0 {
				ln := r.Crash[i:]
				if j := strings.IndexByte(ln, '\n'); j > 0 {
					ln = ln[:j]
				}
				key += "." + strings.Map(func(c rune) rune {
					if c >= 'a' && c <= 'z' || c >= 'A' && c <= 'Z' {
						return c
					}
					return '-'
				}, clipStr(ln, 40))
			}
			total.addViol(key, fmt.Sprintf("below prefix [%s] a worker process died (panic in a goroutine of the code under test, or goroutines left blocked after Close):\n%s",
				trOpsString(prefixes[r.ID]), clipStr(r.Crash, 1500)), prefixes[r.ID], 1)
			continue
		}
		var ag trAgg
		if err := json.Unmarshal(r.Data, &ag); err != nil {
			core.HarnessError("bad shard result: %v", err)
		}
		total.merge(&ag)
	}
	return total
}

func clipStr(s string, n int) string {
	if len(s) > n {
		return s[:n]
	}
	return s
}

func (a *trAgg) report(rep *core.Report) {
	var keys []string
	for k := range a.Viol {
		// oracles of C15 (announce discipline) seen in this lab are reported by C15's run of it, and only there
		if strings.HasPrefix(k, "C15.") != (rep.Prop == "C15") {
			continue
		}
		keys = append(keys, k)
	}
	sort.Strings(keys)
	for _, k := range keys {
		v := a.Viol[k]
		for c := int64(0); c < v.Count; c++ {
			rep.Violate(k, v.Desc, map[string]any{"ops": v.Ops})
		}
	}
}

func TestC16Transport(t *testing.T) {
	logger.Disable()
	if core.IsWorker() {
		core.WorkerMain(func(job core.Job) json.RawMessage { return trWorker(t, job) })
		return
	}
	rep := core.NewReport("C16", "transport", "exploration")
	depth2, depth3, depthC := 7, 6, 6
	if core.Thorough() {
		depth2, depth3, depthC = 8, 7, 8
	}
	rep.Rule = fmt.Sprintf("every operation sequence (depth-first, each sequence replayed in its own synctest bubble on the real udptracker.Transport.Run/Do + UDPTracker.Announce over the in-memory vnet socket; "+
		"transaction ids pinned by vrand) over {start request k (own context, own UDPTracker, same destination), cancel context k, connect reply {ok, short, error action, wrong action, unknown transaction id}, "+
		"announce reply to request k {ok, short, error action, unknown transaction id}, duplicate the last datagram, +61s (connection id expiry, retransmissions), Close}: 2 requests to depth %d, 3 requests to depth %d; "+
		"after every operation: quiescence, then the oracles (every call whose context is cancelled / whose transport is closed has returned; a request returns only on a datagram carrying its own announce "+
		"transaction id or a connect transaction id; reply content equals the datagram sent for that id; no panic); at the end of every sequence all contexts are cancelled and the transport closed and everything must return. "+
		"Composed: two real PeriodicalAnnouncers (torrents A, B; back-off jitter pinned to the lowest/highest quantile, both assignments) sharing the transport, every sequence to depth %d over {start A/B, stop A/B, connect ok/error, announce ok to A/B, +61s}, then a fully responsive tracker for 100 virtual minutes: "+
		"every announcer still running must be Working. Distinct = executed sequences.", depth2, depth3, depthC)
	rep.Assumptions = []string{
		"the UDP socket is vnet's in-memory socket (import rewrite of transport.go); datagram loss is modelled by not replying, reordering by the explorer's choice of which transaction to answer",
		"DNS is not exercised (destination is an IP literal); no blocklist",
		"composed part: the announcers' back-off jitter (cenkalti/backoff draws it from math/rand/v2) is pinned through an in-package hook to the extreme quantiles, A early/B late and the reverse; intermediate draws are not enumerated",
		"a request returning context.Canceled because ANOTHER request's context was cancelled is counted (foreign_cancel_returns) and judged at the announcer level (composed part), as the property allows such aborts but demands a retry",
		"UDPTracker.Announce never times out on a silent tracker (retransmits for ever); such calls are outside the retry obligation and end only by cancel/Close",
	}
	a2 := trExplore(t, rep, "TestC16Transport", "transport", depth2, 2, 2)
	a3 := trExplore(t, rep, "TestC16Transport", "transport", depth3, 3, 2)
	ac := trExplore(t, rep, "TestC16Transport", "composed-lo-hi", depthC, 2, 2)
	ac.merge(trExplore(t, rep, "TestC16Transport", "composed-hi-lo", depthC, 2, 2))
	// observation (outside the retry obligation, see assumptions): a silent tracker
	synctest.Test(t, func(t *testing.T) {
		l := newTrLab(func(key, desc string) {})
		l.start(0, true)
		l.settle()
		time.Sleep(24 * time.Hour)
		l.settle()
		rep.Extra["observation_silent_tracker_announce_still_pending_after_24h"] = !l.reqs[0].returned.Load()
		rep.Extra["observation_silent_tracker_connect_datagrams_in_24h"] = int64(l.sentTotal)
		l.finish()
	})
	all := &trAgg{}
	all.merge(a2)
	all.merge(a3)
	all.merge(ac)
	all.report(rep)
	rep.Evaluations = all.Execs
	rep.Distinct = all.Execs
	rep.Extra["sequences_2_requests"] = a2.Execs
	rep.Extra["sequences_3_requests"] = a3.Execs
	rep.Extra["sequences_composed"] = ac.Execs
	rep.Extra["maximal_sequences"] = all.Leaves
	rep.Extra["operations_executed"] = all.Steps
	rep.Extra["announce_returns_ok"] = a2.OK + a3.OK
	rep.Extra["announce_returns_error"] = a2.Errs + a3.Errs
	rep.Extra["client_datagrams_seen"] = a2.Sent + a3.Sent
	rep.Extra["foreign_cancel_returns"] = a2.Foreign + a3.Foreign
	if a2.ForeignAt != "" {
		rep.Extra["foreign_cancel_minimal_history"] = a2.ForeignAt
	}
	rep.Extra["composed_announcers_working_at_end"] = ac.Working
	rep.Extra["composed_announcers_stuck_at_end"] = ac.Stuck
	rep.Sample(4, "transport: "+trOpsString([]trOp{{Kind: "start"}, {Kind: "start", K: 1}, {Kind: "conn", V: "ok"}, {Kind: "ann", K: 1, V: "ok"}, {Kind: "cancel"}, {Kind: "close"}}))
	if a2.ForeignAt != "" {
		rep.Sample(4, "foreign cancel first seen after: "+a2.ForeignAt)
	}
	if a2.OK == 0 || a2.Errs == 0 || a3.OK == 0 || ac.Working == 0 {
		rep.Vacuous("vacuous transport run: ok=%d errs=%d ok3=%d working=%d", a2.OK, a2.Errs, a3.OK, ac.Working)
	}
	rep.Finish()
}

// ---- composed: two real PeriodicalAnnouncers sharing one transport

type compTorrent struct {
	an      *announcer.PeriodicalAnnouncer
	started bool
	stopped bool
	quit    chan struct{}
	done    chan struct{}
}

// runComposed: ops over {start K, stop K (Kind "cancel"), conn ok/erraction, ann K ok, time61}.
func runComposed(ops []trOp, jitter []float64, viol func(key, desc string), ag *trAgg) []trOp {
	l := newTrLab(viol)
	tors := []*compTorrent{{}, {}}
	// announce datagrams are mapped to torrents by the info hash, as in the transport lab
	l.reqs = []*trRequest{{answered: map[uint32]bool{}}, {answered: map[uint32]bool{}}}
	startTorrent := func(k int) {
		ct := tors[k]
		ct.started = true
		ct.quit, ct.done = make(chan struct{}), make(chan struct{})
		newPeers := make(chan []*net.TCPAddr)
		go func() {
			defer close(ct.done)
			for {
				select {
				case <-newPeers:
				case <-ct.quit:
					return
				}
			}
		}()
		u, _ := url.Parse("udp://" + trDest + "/announce")
		trk := udptracker.New("udp://"+trDest+"/announce", u, l.tr)
		var ih [20]byte
		ih[0] = byte(k + 1)
		ct.an = announcer.NewPeriodicalAnnouncer(trk, 50, time.Minute, func() tracker.Torrent { return tracker.Torrent{InfoHash: ih, Port: 6881, BytesLeft: 1} },
			make(chan struct{}), newPeers, logger.New("c16"))
		ct.an.VerifPinBackoffJitter(jitter[k])
		go ct.an.Run()
	}
	stopTorrent := func(k int) {
		ct := tors[k]
		ct.stopped = true
		done := make(chan struct{})
		go func() { ct.an.Close(); close(done) }()
		synctest.Wait()
		select {
		case <-done:
		default:
			viol("C16.announcer.close-blocks", fmt.Sprintf("torrent %d: PeriodicalAnnouncer.Close did not return", k))
		}
		close(ct.quit)
		<-ct.done
	}
	answerAll := func() bool {
		any := false
		if tx, ok := l.openConnTxid(); ok {
			l.nextConnID++
			l.connAnswer[tx] = true
			l.conn.Inject(udpConnectReply(tx, l.nextConnID))
			any = true
		}
		for k, r := range l.reqs {
			for _, tx := range r.annTxids {
				if !r.answered[tx] {
					r.answered[tx] = true
					l.conn.Inject(udpAnnounceReply(tx, 1800, []byte{10, 1, 1, byte(k + 1), 0x1a, 0xe1}))
					any = true
				}
			}
		}
		return any
	}
	for _, op := range ops {
		switch op.Kind {
		case "start":
			startTorrent(op.K)
		case "cancel":
			stopTorrent(op.K)
		case "conn":
			tx, _ := l.openConnTxid()
			l.connAnswer[tx] = true
			if op.V == "ok" {
				l.nextConnID++
				l.conn.Inject(udpConnectReply(tx, l.nextConnID))
			} else {
				l.conn.Inject(udpErrorReply(tx, refcodec.Benc(refcodec.D("failure reason", "scripted"))))
			}
		case "ann":
			r := l.reqs[op.K]
			tx, _ := r.openAnnTxid()
			r.answered[tx] = true
			l.conn.Inject(udpAnnounceReply(tx, 1800, []byte{10, 1, 1, byte(op.K + 1), 0x1a, 0xe1}))
		case "time61":
			time.Sleep(61 * time.Second)
		}
		l.settle()
	}
	// enabled operations for the next step
	var enabled []trOp
	for k, ct := range tors {
		if !ct.started {
			enabled = append(enabled, trOp{Kind: "start", K: k})
			break // B is only started after A (symmetry)
		}
	}
	for k, ct := range tors {
		if ct.started && !ct.stopped {
			enabled = append(enabled, trOp{Kind: "cancel", K: k})
		}
	}
	if _, ok := l.openConnTxid(); ok {
		enabled = append(enabled, trOp{Kind: "conn", V: "ok"}, trOp{Kind: "conn", V: "erraction"})
	}
	for k, r := range l.reqs {
		if _, ok := r.openAnnTxid(); ok {
			enabled = append(enabled, trOp{Kind: "ann", K: k, V: "ok"})
		}
	}
	nTime := 0
	for _, o := range ops {
		if o.Kind == "time61" {
			nTime++
		}
	}
	if nTime < 2 && tors[0].started {
		enabled = append(enabled, trOp{Kind: "time61"})
	}
	// from now on the tracker answers everything at once, for 100 virtual minutes
	for i := 0; i < 400; i++ {
		for answerAll() {
			l.settle()
		}
		time.Sleep(15 * time.Second)
		l.settle()
	}
	for answerAll() {
		l.settle()
	}
	for k, ct := range tors {
		if !ct.started || ct.stopped {
			continue
		}
		st := ct.an.Stats()
		switch st.Status {
		case announcer.Working:
			ag.Working++
		case announcer.Contacting:
			ag.Stuck++
			viol("C16.composed.stuck-contacting", fmt.Sprintf("torrent %d is still running, the tracker has answered every datagram for 100 minutes, yet its announcer is in status Contacting with no transaction outstanding "+
				"(last announce %v ago)", k, time.Since(st.LastAnnounce)))
		default:
			ag.Stuck++
			viol("C16.composed.not-working", fmt.Sprintf("torrent %d: announcer status %d after 100 minutes of a responsive tracker (error %v)", k, st.Status, st.Error))
		}
	}
	for k, ct := range tors {
		if ct.started && !ct.stopped {
			stopTorrent(k)
		}
	}
	l.apply(trOp{Kind: "close"})
	l.settle()
	if l.runPanic != "" {
		viol("C16.transport.panic."+frameKey(strings.SplitN(l.runPanic, " at ", 2)[1]), "Transport.Run panicked: "+l.runPanic)
	}
	return enabled
}


// TestC15Transport: the same transport lab, judged by C15's oracle: an announce the tracker has answered (reply or error
// packet) is never sent again - a retransmitted 'completed' or 'started' would break "at most once" and the spacing rule.
func TestC15Transport(t *testing.T) {
	logger.Disable()
	if core.IsWorker() {
		core.WorkerMain(func(job core.Job) json.RawMessage { return trWorker(t, job) })
		return
	}
	rep := core.NewReport("C15", "udp-retransmit", "exploration")
	depth := 6
	if core.Thorough() {
		depth = 8
	}
	rep.Rule = fmt.Sprintf("every operation sequence to depth %d of the transport lab of C16 (real udptracker.Transport + UDPTracker.Announce over the in-memory socket, 2 requests; operations: start, cancel, connect replies, announce replies {ok, short, error action, unknown transaction id}, duplicate datagram, +61s, Close); after every operation every datagram the client sent is decoded: an announce datagram whose transaction was already answered by a well-formed reply or error packet must not appear again", depth)
	rep.Assumptions = []string{"malformed (short) replies do not end a transaction: retransmission after them is legitimate and not judged"}
	a := trExplore(t, rep, "TestC15Transport", "transport", depth, 2, 2)
	a.report(rep)
	rep.Evaluations = a.Execs
	rep.Distinct = a.Execs
	rep.Extra["client_datagrams_seen"] = a.Sent
	rep.Extra["announce_returns_error"] = a.Errs
	if a.Errs == 0 || a.Sent == 0 {
		rep.Vacuous("vacuous: no error return / no datagram seen")
	}
	rep.Finish()
}

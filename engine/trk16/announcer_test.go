//go:build verif

package trk16

import (
	"context"
	"encoding/json"
	"errors"
	"fmt"
	"net"
	"sort"
	"strings"
	"sync/atomic"
	"testing"
	"testing/synctest"
	"time"

	"github.com/cenkalti/rain/v2/internal/announcer"
	"github.com/cenkalti/rain/v2/internal/logger"
	"github.com/cenkalti/rain/v2/internal/tracker"
	"github.com/cenkalti/rain/v2/zzverif/core"
)

// ---- answers the explorer can give to one Announce call

type annAnswer int8

const (
	ansOK            annAnswer = iota // reply, interval 30 min
	ansError                          // plain error
	ansTrackerErr                     // tracker "failure reason", no retry-in
	ansTrackerRetry                   // tracker "failure reason" with retry in 2 min
	ansDeadline                       // context.DeadlineExceeded
	ansForeignCancel                  // context.Canceled although the announcer's context is NOT cancelled
	ansHang                           // never answers (ends only when the announcer cancels its context); terminal
	numAnswers
)

var annNames = [...]string{"ok", "error", "tracker-error", "tracker-error-retry-in", "deadline-exceeded", "foreign-cancel", "hang"}

func (a annAnswer) String() string { return annNames[a] }

const (
	annOKInterval = 30 * time.Minute
	annRetryIn    = 2 * time.Minute
	// PeriodicalAnnouncer's documented back-off: ExponentialBackOff{Initial 5s, x2, MaxInterval 30min,
	// RandomizationFactor 0.5} => no back-off exceeds 30min * 1.5 (+1ns rounding in the library formula).
	annBackoffBound = 45*time.Minute + time.Nanosecond
)

// bound returns the latest time after the end of an announce with this answer at which the next
// Announce call must have been made (ok: the tracker's interval; this is not a C16 oracle).
func (a annAnswer) bound() time.Duration {
	switch a {
	case ansOK:
		return annOKInterval
	case ansTrackerRetry:
		return annRetryIn
	}
	return annBackoffBound
}

type annCall struct {
	ctx   context.Context
	req   tracker.AnnounceRequest
	at    time.Time
	reply chan annAnswer
}

type annTracker struct {
	calls     chan *annCall
	ncalls    atomic.Int64
	cancelled atomic.Int64 // calls that ended because the announcer cancelled its own context
}

func (t *annTracker) URL() string { return "udp://10.0.0.1:6969/announce" }

func (t *annTracker) Announce(ctx context.Context, req tracker.AnnounceRequest) (*tracker.AnnounceResponse, error) {
	c := &annCall{ctx: ctx, req: req, at: time.Now(), reply: make(chan annAnswer, 1)}
	t.ncalls.Add(1)
	select {
	case t.calls <- c:
	case <-ctx.Done():
		t.cancelled.Add(1)
		return nil, ctx.Err()
	}
	select {
	case a := <-c.reply:
		switch a {
		case ansOK:
			return &tracker.AnnounceResponse{Interval: annOKInterval, Peers: []*net.TCPAddr{{IP: net.IPv4(10, 1, 1, 1).To4(), Port: 6881}}}, nil
		case ansError:
			return nil, errors.New("scripted network error")
		case ansTrackerErr:
			return nil, &tracker.Error{FailureReason: "scripted failure"}
		case ansTrackerRetry:
			return nil, &tracker.Error{FailureReason: "scripted failure", RetryIn: annRetryIn}
		case ansDeadline:
			return nil, context.DeadlineExceeded
		case ansForeignCancel:
			if ctx.Err() != nil {
				core.HarnessError("announcer harness: foreign cancel delivered although own ctx is done")
			}
			return nil, context.Canceled
		}
		core.HarnessError("announcer harness: bad answer %d", a)
		return nil, nil
	case <-ctx.Done():
		t.cancelled.Add(1)
		return nil, ctx.Err()
	}
}

type annOutcome struct {
	violKey  string
	violDesc string
	retries  [numAnswers]int64 // announces with that answer that were followed by another Announce in time
	noPeriod bool              // an ok answer was not followed by an announce after the interval (not a C16 matter)
	calls    int64
	closeOK  bool
	completedSeen bool // the "completed" announce was made after a completion during an announce in flight
}

func seqString(seq []annAnswer) string {
	var s []string
	for _, a := range seq {
		s = append(s, a.String())
	}
	return strings.Join(s, ",")
}

// runAnnouncerSeq executes one answer sequence against a real PeriodicalAnnouncer inside the current
// synctest bubble. needMore: NeedMorePeers(true) is signalled after every answer.
// completeAt: the download completes (completedC closes) while announce number completeAt is in flight
// (-1: never): the announcer abandons that call and must make a "completed" announce, which then gets the
// answer meant for the abandoned one.
func runAnnouncerSeq(seq []annAnswer, needMore bool, completeAt int) (out annOutcome) {
	trk := &annTracker{calls: make(chan *annCall)}
	newPeers := make(chan []*net.TCPAddr)
	quit := make(chan struct{})
	consumerDone := make(chan struct{})
	go func() { // the torrent: consumes peer lists
		defer close(consumerDone)
		for {
			select {
			case <-newPeers:
			case <-quit:
				return
			}
		}
	}()
	completedC := make(chan struct{})
	an := announcer.NewPeriodicalAnnouncer(trk, 50, time.Minute, func() tracker.Torrent { return tracker.Torrent{Port: 6881} }, completedC, newPeers, logger.New("c16"))
	runDone := make(chan struct{})
	go func() { an.Run(); close(runDone) }()

	waitCall := func(limit time.Duration) *annCall {
		tm := time.NewTimer(limit)
		defer tm.Stop()
		select {
		case c := <-trk.calls:
			return c
		case <-tm.C:
			// the announcer's timer may be due at exactly the same virtual instant: let it run first
			synctest.Wait()
			select {
			case c := <-trk.calls:
				return c
			default:
			}
			return nil
		}
	}

	prev := annAnswer(-1) // none
	var prevEnd time.Time
	stuck := false
	for i := 0; i <= len(seq); i++ {
		var c *annCall
		if i == 0 {
			synctest.Wait()
			select {
			case c = <-trk.calls:
			default:
			}
			if c == nil {
				out.violKey = "C16.retry.no-first-announce"
				out.violDesc = "the announcer made no announce at start"
				break
			}
			if c.req.Event != tracker.EventStarted {
				core.HarnessError("first announce has event %v", c.req.Event)
			}
		} else {
			if prev == ansHang {
				// the call is still in flight and the announcer has no time-out of its own: nothing to wait for
				time.Sleep(2 * time.Hour)
				synctest.Wait()
				break
			}
			c = waitCall(prev.bound())
			if c == nil {
				if prev == ansOK {
					out.noPeriod = true
				} else {
					st := an.Stats()
					out.violKey = "C16.retry.missing." + prev.String()
					out.violDesc = fmt.Sprintf("answers [%s] (needMorePeers=%v): announce #%d ended with %q at t=%v and no further Announce call was made within %v (announcer status %d, 1=Contacting; next timer: none due)",
						seqString(seq[:i]), needMore, i, prev.String(), prevEnd.Sub(time.Unix(946684800, 0)), prev.bound(), st.Status)
				}
				stuck = true
				break
			}
			if gap := c.at.Sub(prevEnd); gap > prev.bound() {
				core.HarnessError("announcer harness: call accepted after the bound (%v > %v)", gap, prev.bound())
			}
			out.retries[prev]++
		}
		if i == len(seq) {
			// the retry of the last answer has been observed; leave this call hanging, Close must cancel it
			break
		}
		if i == completeAt {
			close(completedC)
			synctest.Wait()
			c2 := waitCall(annBackoffBound)
			if c2 == nil {
				st := an.Stats()
				out.violKey = "C16.retry.missing.after-complete"
				out.violDesc = fmt.Sprintf("answers [%s] (needMorePeers=%v): the download completed while announce #%d was in flight; no announce was made afterwards within %v (announcer status %d, 1=Contacting)",
					seqString(seq[:i]), needMore, i+1, annBackoffBound, st.Status)
				break
			}
			if c2.req.Event != tracker.EventCompleted {
				out.violKey = "C16.announcer.completed-event-missing"
				out.violDesc = fmt.Sprintf("answers [%s]: after completion during announce #%d the next announce has event %v", seqString(seq[:i]), i+1, c2.req.Event)
				break
			}
			out.completedSeen = true
			c = c2
		}
		if seq[i] != ansHang {
			c.reply <- seq[i]
		}
		synctest.Wait()
		prev, prevEnd = seq[i], time.Now()
		if needMore {
			an.NeedMorePeers(true)
			synctest.Wait()
		}
	}
	_ = stuck
	// Close always returns
	closed := make(chan struct{})
	go func() { an.Close(); close(closed) }()
	synctest.Wait()
	select {
	case <-closed:
		out.closeOK = true
	default:
	}
	select {
	case <-runDone:
	default:
		out.closeOK = false
	}
	out.calls = trk.ncalls.Load()
	close(quit)
	<-consumerDone
	return out
}

// forEachAnnSeq enumerates the answer sequences in canonical (depth-first) order; hang only in last position.
func forEachAnnSeq(maxLen int, f func(idx int, seq []annAnswer)) int {
	idx := 0
	var rec func(cur []annAnswer)
	rec = func(cur []annAnswer) {
		if len(cur) > 0 {
			f(idx, cur)
			idx++
		}
		if len(cur) == maxLen || (len(cur) > 0 && cur[len(cur)-1] == ansHang) {
			return
		}
		for a := annAnswer(0); a < numAnswers; a++ {
			rec(append(cur, a))
		}
	}
	rec(make([]annAnswer, 0, maxLen+1))
	return idx
}

type annJob struct {
	Lo, Hi int // sequence index range [Lo,Hi) in canonical order
	MaxLen int
}

type annViol struct {
	Desc     string `json:"desc"`
	Answers  string `json:"answers"`
	NeedMore bool   `json:"need_more"`
	Len      int    `json:"len"`
	Count    int64  `json:"count"`
}

type annAgg struct {
	Retries   [numAnswers]int64   `json:"retries"`
	Stuck     int64               `json:"stuck"`
	Calls     int64               `json:"calls"`
	NoPeriod  int64               `json:"no_period"`
	Completed int64               `json:"completed"`
	Execs     int64               `json:"execs"`
	Viol      map[string]*annViol `json:"viol"`
	Samples   []string            `json:"samples"`
	CloseFail string              `json:"close_fail,omitempty"`
}

func (ag *annAgg) addViol(key string, v annViol) {
	if ag.Viol == nil {
		ag.Viol = map[string]*annViol{}
	}
	old, ok := ag.Viol[key]
	if !ok {
		c := v
		ag.Viol[key] = &c
		return
	}
	n := old.Count + v.Count
	if v.Len < old.Len || (v.Len == old.Len && !v.NeedMore && old.NeedMore) {
		c := v
		ag.Viol[key] = &c
		old = ag.Viol[key]
	}
	old.Count = n
}

func annWorker(t *testing.T, job core.Job) json.RawMessage {
	var j annJob
	if err := json.Unmarshal(job.Data, &j); err != nil {
		core.HarnessError("bad job: %v", err)
	}
	ag := &annAgg{}
	total := j.Hi - j.Lo
	forEachAnnSeq(j.MaxLen, func(idx int, cur []annAnswer) {
		if idx < j.Lo || idx >= j.Hi {
			return
		}
		seq := append([]annAnswer{}, cur...)
		for _, nc := range []struct {
			needMore   bool
			completeAt int
		}{{false, -1}, {true, -1}, {false, 0}, {false, len(seq) - 1}, {true, len(seq) / 2}} {
			needMore, completeAt := nc.needMore, nc.completeAt
			var out annOutcome
			var pan string
			synctest.Test(t, func(t *testing.T) {
				defer func() {
					if p := recover(); p != nil {
						pan = fmt.Sprintf("%v at %s", p, topRepoFrame())
					}
				}()
				out = runAnnouncerSeq(seq, needMore, completeAt)
				if !out.closeOK {
					// the bubble cannot be left: report and end this worker process
					ag.addViol("C16.announcer.close-blocks", annViol{Desc: fmt.Sprintf("answers [%s] (needMorePeers=%v): Close did not return / Run did not end", seqString(seq), needMore),
						Answers: seqString(seq), NeedMore: needMore, Len: len(seq), Count: 1})
					ag.CloseFail = seqString(seq)
					b, _ := json.Marshal(ag)
					core.ExitCrash(b)
				}
			})
			ag.Execs++
			if pan != "" {
				out.violKey = "C16.announcer.panic." + frameKey(strings.SplitN(pan, " at ", 2)[1])
				out.violDesc = fmt.Sprintf("answers [%s] (needMorePeers=%v): panic %s", seqString(seq), needMore, pan)
			}
			if out.violKey != "" {
				ag.Stuck++
				ag.addViol(out.violKey, annViol{Desc: out.violDesc, Answers: seqString(seq), NeedMore: needMore, Len: len(seq), Count: 1})
			}
			for a := range ag.Retries {
				ag.Retries[a] += out.retries[a]
			}
			if out.noPeriod {
				ag.NoPeriod++
			}
			if out.completedSeen {
				ag.Completed++
			}
			ag.Calls += out.calls
			if !needMore && (idx-j.Lo) == total/2 {
				ag.Samples = append(ag.Samples, fmt.Sprintf("[%s] -> announce calls=%d violation=%q", seqString(seq), out.calls, out.violKey))
			}
		}
	})
	b, _ := json.Marshal(ag)
	return b
}

func TestC16Announcer(t *testing.T) {
	logger.Disable()
	if core.IsWorker() {
		core.WorkerMain(func(job core.Job) json.RawMessage { return annWorker(t, job) })
		return
	}
	rep := core.NewReport("C16", "announcer", "exploration")
	maxLen := 5
	if core.Thorough() {
		maxLen = 7
	}
	rep.Rule = fmt.Sprintf("every sequence of tracker answers of length 1..%d over {ok(30min), error, tracker failure, tracker failure with retry-in 2min, context.DeadlineExceeded, "+
		"context.Canceled while the announcer's own context is live (abort caused by another torrent), hang (terminal)} x {NeedMorePeers never / signalled after every answer} x {the download never completes / completes while the first, the last, a middle announce is in flight}, "+
		"each executed on the real PeriodicalAnnouncer.Run inside its own synctest bubble; after each answer virtual time runs to the next timer. "+
		"Oracle: an announce that ended without a reply is followed by another Announce call within the back-off bound (45min+1ns = MaxInterval*(1+RandomizationFactor), or the tracker's retry-in), "+
		"measured on the virtual clock; Close returns and Run ends. Distinct = distinct (sequence, needMorePeers) pairs.", maxLen)
	rep.Assumptions = []string{
		"PeriodicalAnnouncer has no time-out of its own (time-outs belong to the tracker implementations), so a hanging Announce ends only at Close; it is enumerated as a terminal answer",
		"the back-off jitter is drawn by cenkalti/backoff from math/rand/v2 (not pinned): the oracle uses only the documented upper bound, so counts do not depend on the draws",
		"the completed event and Stats polling during the run are not part of the alphabet",
	}
	nseq := forEachAnnSeq(maxLen, func(int, []annAnswer) {})
	nJobs := core.Parallelism() * 12
	var jobs []core.Job
	for k := 0; k < nJobs; k++ {
		lo, hi := nseq*k/nJobs, nseq*(k+1)/nJobs
		if hi > lo {
			b, _ := json.Marshal(annJob{Lo: lo, Hi: hi, MaxLen: maxLen})
			jobs = append(jobs, core.Job{ID: k, Data: b})
		}
	}
	results := core.RunSharded("TestC16Announcer", jobs, 10*time.Minute)
	sort.Slice(results, func(a, b int) bool { return results[a].ID < results[b].ID })
	total := &annAgg{}
	for _, r := range results {
		if r.Hang {
			rep.Cap(fmt.Sprintf("announcer shard %d exceeded its wall budget", r.ID))
			continue
		}
		var ag annAgg
		if len(r.Data) > 0 {
			if err := json.Unmarshal(r.Data, &ag); err != nil {
				core.HarnessError("bad shard result: %v", err)
			}
		}
		if r.Crash != "" {
			rep.Violate("C16.announcer.crash", "announcer shard crashed (panic in a goroutine of the code under test?):\n"+r.Crash, nil)
			continue
		}
		if ag.CloseFail != "" {
			rep.Cap("a shard stopped early after Close blocked (answers " + ag.CloseFail + ")")
		}
		for a := range total.Retries {
			total.Retries[a] += ag.Retries[a]
		}
		total.Stuck += ag.Stuck
		total.Calls += ag.Calls
		total.NoPeriod += ag.NoPeriod
		total.Completed += ag.Completed
		total.Execs += ag.Execs
		for k, v := range ag.Viol {
			total.addViol(k, *v)
		}
		for _, s := range ag.Samples {
			if r.ID%(nJobs/8+1) == 0 {
				rep.Sample(10, s)
			}
		}
	}
	var keys []string
	for k := range total.Viol {
		keys = append(keys, k)
	}
	sort.Strings(keys)
	for _, k := range keys {
		v := total.Viol[k]
		for c := int64(0); c < v.Count; c++ {
			rep.Violate(k, v.Desc, map[string]any{"answers": v.Answers, "needMorePeers": v.NeedMore})
		}
	}
	retries, stuck, calls, noPeriod := total.Retries, total.Stuck, total.Calls, total.NoPeriod
	rep.Distinct = total.Execs
	rep.Evaluations = total.Execs
	rep.Extra["sequences"] = int64(nseq)
	rep.Extra["announce_calls_observed"] = calls
	for a := annAnswer(0); a < numAnswers; a++ {
		rep.Extra["followed_by_next_announce_after_"+a.String()] = retries[a]
	}
	rep.Extra["executions_ending_without_retry"] = stuck
	rep.Extra["ok_not_followed_by_periodic_announce"] = noPeriod
	rep.Extra["completed_announces_after_completion_during_an_announce"] = total.Completed
	rep.Extra["bounds"] = fmt.Sprintf("sequence length<=%d, %d answers", maxLen, int(numAnswers))
	if retries[ansError] == 0 || retries[ansOK] == 0 || retries[ansTrackerRetry] == 0 || retries[ansDeadline] == 0 {
		rep.Vacuous("vacuous announcer run: retries=%v", retries)
	}
	rep.Finish()
}

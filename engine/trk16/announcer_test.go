//go:build verif

package trk16

import (
	"context"
	"errors"
	"fmt"
	"net"
	"strings"
	"sync/atomic"
	"testing"
	"testing/synctest"
	"time"

	"github.com/cenkalti/rain/v2/internal/announcer"
	"github.com/cenkalti/rain/v2/internal/logger"
	"github.com/cenkalti/rain/v2/internal/tracker"
	"github.com/cenkalti/rain/v2/zzverif/core"
)

// ---- answers the explorer can give to one Announce call

type annAnswer int

const (
	ansOK            annAnswer = iota // reply, interval 30 min
	ansError                          // plain error
	ansTrackerErr                     // tracker "failure reason", no retry-in
	ansTrackerRetry                   // tracker "failure reason" with retry in 2 min
	ansDeadline                       // context.DeadlineExceeded
	ansForeignCancel                  // context.Canceled although the announcer's context is NOT cancelled
	ansHang                           // never answers (ends only when the announcer cancels its context); terminal
	numAnswers
)

var annNames = [...]string{"ok", "error", "tracker-error", "tracker-error-retry-in", "deadline-exceeded", "foreign-cancel", "hang"}

func (a annAnswer) String() string { return annNames[a] }

const (
	annOKInterval = 30 * time.Minute
	annRetryIn    = 2 * time.Minute
	// PeriodicalAnnouncer's documented back-off: ExponentialBackOff{Initial 5s, x2, MaxInterval 30min,
	// RandomizationFactor 0.5} => no back-off exceeds 30min * 1.5 (+1ns rounding in the library formula).
	annBackoffBound = 45*time.Minute + time.Nanosecond
)

// bound returns the latest time after the end of an announce with this answer at which the next
// Announce call must have been made (ok: the tracker's interval; this is not a C16 oracle).
func (a annAnswer) bound() time.Duration {
	switch a {
	case ansOK:
		return annOKInterval
	case ansTrackerRetry:
		return annRetryIn
	}
	return annBackoffBound
}

type annCall struct {
	ctx   context.Context
	req   tracker.AnnounceRequest
	at    time.Time
	reply chan annAnswer
}

type annTracker struct {
	calls     chan *annCall
	ncalls    atomic.Int64
	cancelled atomic.Int64 // calls that ended because the announcer cancelled its own context
}

func (t *annTracker) URL() string { return "udp://10.0.0.1:6969/announce" }

func (t *annTracker) Announce(ctx context.Context, req tracker.AnnounceRequest) (*tracker.AnnounceResponse, error) {
	c := &annCall{ctx: ctx, req: req, at: time.Now(), reply: make(chan annAnswer, 1)}
	t.ncalls.Add(1)
	select {
	case t.calls <- c:
	case <-ctx.Done():
		t.cancelled.Add(1)
		return nil, ctx.Err()
	}
	select {
	case a := <-c.reply:
		switch a {
		case ansOK:
			return &tracker.AnnounceResponse{Interval: annOKInterval, Peers: []*net.TCPAddr{{IP: net.IPv4(10, 1, 1, 1).To4(), Port: 6881}}}, nil
		case ansError:
			return nil, errors.New("scripted network error")
		case ansTrackerErr:
			return nil, &tracker.Error{FailureReason: "scripted failure"}
		case ansTrackerRetry:
			return nil, &tracker.Error{FailureReason: "scripted failure", RetryIn: annRetryIn}
		case ansDeadline:
			return nil, context.DeadlineExceeded
		case ansForeignCancel:
			if ctx.Err() != nil {
				core.HarnessError("announcer harness: foreign cancel delivered although own ctx is done")
			}
			return nil, context.Canceled
		}
		core.HarnessError("announcer harness: bad answer %d", a)
		return nil, nil
	case <-ctx.Done():
		t.cancelled.Add(1)
		return nil, ctx.Err()
	}
}

type annOutcome struct {
	violKey  string
	violDesc string
	retries  [numAnswers]int64 // announces with that answer that were followed by another Announce in time
	noPeriod bool              // an ok answer was not followed by an announce after the interval (not a C16 matter)
	calls    int64
	closeOK  bool
}

func seqString(seq []annAnswer) string {
	var s []string
	for _, a := range seq {
		s = append(s, a.String())
	}
	return strings.Join(s, ",")
}

// runAnnouncerSeq executes one answer sequence against a real PeriodicalAnnouncer inside the current
// synctest bubble. needMore: NeedMorePeers(true) is signalled after every answer.
func runAnnouncerSeq(seq []annAnswer, needMore bool) (out annOutcome) {
	trk := &annTracker{calls: make(chan *annCall)}
	newPeers := make(chan []*net.TCPAddr)
	quit := make(chan struct{})
	consumerDone := make(chan struct{})
	go func() { // the torrent: consumes peer lists
		defer close(consumerDone)
		for {
			select {
			case <-newPeers:
			case <-quit:
				return
			}
		}
	}()
	completedC := make(chan struct{})
	an := announcer.NewPeriodicalAnnouncer(trk, 50, time.Minute, func() tracker.Torrent { return tracker.Torrent{Port: 6881} }, completedC, newPeers, logger.New("c16"))
	runDone := make(chan struct{})
	go func() { an.Run(); close(runDone) }()

	waitCall := func(limit time.Duration) *annCall {
		tm := time.NewTimer(limit)
		defer tm.Stop()
		select {
		case c := <-trk.calls:
			return c
		case <-tm.C:
			// the announcer's timer may be due at exactly the same virtual instant: let it run first
			synctest.Wait()
			select {
			case c := <-trk.calls:
				return c
			default:
			}
			return nil
		}
	}

	prev := annAnswer(-1)
	var prevEnd time.Time
	stuck := false
	for i := 0; i <= len(seq); i++ {
		var c *annCall
		if i == 0 {
			synctest.Wait()
			select {
			case c = <-trk.calls:
			default:
			}
			if c == nil {
				out.violKey = "C16.retry.no-first-announce"
				out.violDesc = "the announcer made no announce at start"
				break
			}
			if c.req.Event != tracker.EventStarted {
				core.HarnessError("first announce has event %v", c.req.Event)
			}
		} else {
			if prev == ansHang {
				// the call is still in flight and the announcer has no time-out of its own: nothing to wait for
				time.Sleep(2 * time.Hour)
				synctest.Wait()
				break
			}
			c = waitCall(prev.bound())
			if c == nil {
				if prev == ansOK {
					out.noPeriod = true
				} else {
					st := an.Stats()
					out.violKey = "C16.retry.missing." + prev.String()
					out.violDesc = fmt.Sprintf("answers [%s] (needMorePeers=%v): announce #%d ended with %q at t=%v and no further Announce call was made within %v (announcer status %d, 1=Contacting; next timer: none due)",
						seqString(seq[:i]), needMore, i, prev.String(), prevEnd.Sub(time.Unix(946684800, 0)), prev.bound(), st.Status)
				}
				stuck = true
				break
			}
			if gap := c.at.Sub(prevEnd); gap > prev.bound() {
				core.HarnessError("announcer harness: call accepted after the bound (%v > %v)", gap, prev.bound())
			}
			out.retries[prev]++
		}
		if i == len(seq) {
			// the retry of the last answer has been observed; leave this call hanging, Close must cancel it
			break
		}
		if seq[i] != ansHang {
			c.reply <- seq[i]
		}
		synctest.Wait()
		prev, prevEnd = seq[i], time.Now()
		if needMore {
			an.NeedMorePeers(true)
			synctest.Wait()
		}
	}
	_ = stuck
	// Close always returns
	closed := make(chan struct{})
	go func() { an.Close(); close(closed) }()
	synctest.Wait()
	select {
	case <-closed:
		out.closeOK = true
	default:
	}
	select {
	case <-runDone:
	default:
		out.closeOK = false
	}
	out.calls = trk.ncalls.Load()
	close(quit)
	<-consumerDone
	return out
}

func TestC16Announcer(t *testing.T) {
	logger.Disable()
	rep := core.NewReport("C16", "announcer", "exploration")
	maxLen := 5
	if core.Thorough() {
		maxLen = 7
	}
	rep.Rule = fmt.Sprintf("every sequence of tracker answers of length 1..%d over {ok(30min), error, tracker failure, tracker failure with retry-in 2min, context.DeadlineExceeded, "+
		"context.Canceled while the announcer's own context is live (abort caused by another torrent), hang (terminal)} x {NeedMorePeers never / signalled after every answer}, "+
		"each executed on the real PeriodicalAnnouncer.Run inside its own synctest bubble; after each answer virtual time runs to the next timer. "+
		"Oracle: an announce that ended without a reply is followed by another Announce call within the back-off bound (45min+1ns = MaxInterval*(1+RandomizationFactor), or the tracker's retry-in), "+
		"measured on the virtual clock; Close returns and Run ends. Distinct = distinct (sequence, needMorePeers) pairs.", maxLen)
	rep.Assumptions = []string{
		"PeriodicalAnnouncer has no time-out of its own (time-outs belong to the tracker implementations), so a hanging Announce ends only at Close; it is enumerated as a terminal answer",
		"the back-off jitter is drawn by cenkalti/backoff from math/rand/v2 (not pinned): the oracle uses only the documented upper bound, so counts do not depend on the draws",
		"the completed event and Stats polling during the run are not part of the alphabet",
	}
	// enumerate sequences: hang only in last position
	var seqs [][]annAnswer
	var rec func(cur []annAnswer)
	rec = func(cur []annAnswer) {
		if len(cur) > 0 {
			seqs = append(seqs, append([]annAnswer{}, cur...))
		}
		if len(cur) == maxLen || (len(cur) > 0 && cur[len(cur)-1] == ansHang) {
			return
		}
		for a := annAnswer(0); a < numAnswers; a++ {
			rec(append(cur, a))
		}
	}
	// simplest first: by length
	rec(nil)
	byLen := make([][]annAnswer, 0, len(seqs))
	for l := 1; l <= maxLen; l++ {
		for _, s := range seqs {
			if len(s) == l {
				byLen = append(byLen, s)
			}
		}
	}
	seqs = byLen
	type job struct {
		seq      []annAnswer
		needMore bool
	}
	var jobs []job
	for _, s := range seqs {
		jobs = append(jobs, job{s, false}, job{s, true})
	}
	outs := make([]annOutcome, len(jobs))
	W := core.Parallelism()
	t.Run("workers", func(t *testing.T) {
		for w := 0; w < W; w++ {
			w := w
			t.Run(fmt.Sprint(w), func(t *testing.T) {
				t.Parallel()
				for i := w; i < len(jobs); i += W {
					j := jobs[i]
					var out annOutcome
					var pan string
					synctest.Test(t, func(t *testing.T) {
						defer func() {
							if p := recover(); p != nil {
								pan = fmt.Sprintf("%v at %s", p, topRepoFrame())
							}
						}()
						out = runAnnouncerSeq(j.seq, j.needMore)
						if !out.closeOK {
							rep.Violate("C16.announcer.close-blocks", fmt.Sprintf("answers [%s] (needMorePeers=%v): Close did not return / Run did not end", seqString(j.seq), j.needMore),
								map[string]any{"answers": seqString(j.seq), "needMorePeers": j.needMore})
							poisoned(rep, "announcer Close blocked; the bubble cannot be left")
						}
					})
					if pan != "" {
						rep.Violate("C16.announcer.panic."+frameKey(strings.SplitN(pan, " at ", 2)[1]), fmt.Sprintf("answers [%s]: panic %s", seqString(j.seq), pan), seqString(j.seq))
					}
					outs[i] = out
				}
			})
		}
	})
	var retries [numAnswers]int64
	var stuck, calls, noPeriod int64
	for i, o := range outs {
		j := jobs[i]
		rep.CountDistinct(fmt.Sprintf("%s|%v", seqString(j.seq), j.needMore))
		if o.violKey != "" {
			stuck++
			rep.Violate(o.violKey, o.violDesc, map[string]any{"answers": seqString(j.seq), "needMorePeers": j.needMore})
		}
		for a := range retries {
			retries[a] += o.retries[a]
		}
		if o.noPeriod {
			noPeriod++
		}
		calls += o.calls
		if i%(len(outs)/6+1) == 0 {
			rep.Sample(8, fmt.Sprintf("[%s] needMore=%v -> calls=%d viol=%q", seqString(j.seq), j.needMore, o.calls, o.violKey))
		}
	}
	rep.Evaluations = int64(len(jobs))
	rep.Extra["sequences"] = int64(len(seqs))
	rep.Extra["announce_calls_observed"] = calls
	for a := annAnswer(0); a < numAnswers; a++ {
		rep.Extra["followed_by_next_announce_after_"+a.String()] = retries[a]
	}
	rep.Extra["executions_ending_without_retry"] = stuck
	rep.Extra["ok_not_followed_by_periodic_announce"] = noPeriod
	rep.Extra["bounds"] = fmt.Sprintf("sequence length<=%d, %d answers", maxLen, int(numAnswers))
	if retries[ansError] == 0 || retries[ansOK] == 0 || retries[ansTrackerRetry] == 0 || retries[ansDeadline] == 0 {
		core.HarnessError("vacuous announcer run: retries=%v", retries)
	}
	rep.Finish()
}

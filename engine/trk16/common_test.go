//go:build verif

// Package trk16: C16 — tracker tier failover cycles forever; every announce that ends without a reply
// is retried after bounded back-off; tracker reply bytes never crash / over-read / get accepted for a
// different transaction. Four parts (each a Test function with its own evidence):
//
//	TestC16Tier      explicit-state BFS to a fixpoint over the tier's stored index (plain variant)
//	TestC16Announcer every answer sequence against the real PeriodicalAnnouncer in virtual time (plain)
//	TestC16Transport the real UDP transport over the in-memory vnet socket in virtual time (lab variant)
//	TestC16Bytes     HTTP reply bodies / headers from a bencode lattice through the real HTTPTracker (plain)
//	TestC16BytesUDP  UDP datagram lattice and datagram sequences through the real transport (lab variant)
package trk16

import (
	"fmt"
	"os"
	"runtime"
	"strings"
	"sync"

	"github.com/cenkalti/rain/v2/zzverif/core"
)

// topRepoFrame returns the first frame of the current panic stack that lies in rain (not the harness).
func topRepoFrame() string {
	buf := make([]byte, 16384)
	n := runtime.Stack(buf, false)
	lines := strings.Split(string(buf[:n]), "\n")
	for i, ln := range lines {
		if strings.Contains(ln, "/repo/") && !strings.Contains(ln, "zzverif") && !strings.Contains(ln, "/verif/") {
			f := strings.TrimSpace(ln)
			if j := strings.Index(f, " +0x"); j > 0 {
				f = f[:j]
			}
			f = strings.TrimPrefix(f, "/repo/")
			fn := ""
			if i > 0 {
				fn = strings.TrimSpace(lines[i-1])
				if j := strings.LastIndex(fn, "("); j > 0 {
					fn = fn[:j]
				}
				if j := strings.LastIndex(fn, "/"); j >= 0 {
					fn = fn[j+1:]
				}
			}
			return fn + "@" + f
		}
	}
	return "unknown"
}

// frameKey strips the line number from a frame so that keys are stable under unrelated edits.
func frameKey(frame string) string {
	if j := strings.LastIndex(frame, ":"); j > 0 {
		frame = frame[:j]
	}
	if j := strings.Index(frame, "@"); j > 0 {
		return frame[:j]
	}
	return frame
}

var poisonMu sync.Mutex

// poisoned ends the run at once: the system under test left goroutines that can never finish (e.g. a
// Close that does not return), so the current synctest bubble cannot be left. The violation has been
// recorded by the caller; the rest of the enumeration is reported as cut short.
func poisoned(rep *core.Report, what string) {
	poisonMu.Lock() // never unlocked: the process exits
	rep.Cap("enumeration stopped early: " + what)
	rep.Finish()
	os.Exit(core.ExitViolation)
}

func sprintf(f string, a ...any) string { return fmt.Sprintf(f, a...) }

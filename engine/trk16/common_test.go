//go:build verif

// Package trk16: C16 — tracker tier failover cycles forever; every announce that ends without a reply
// is retried after bounded back-off; tracker reply bytes never crash / over-read / get accepted for a
// different transaction. Four parts (each a Test function with its own evidence):
//
//	TestC16Tier      explicit-state BFS to a fixpoint over the tier's stored index (plain variant)
//	TestC16Announcer every answer sequence against the real PeriodicalAnnouncer in virtual time (plain)
//	TestC16Transport the real UDP transport over the in-memory vnet socket in virtual time (lab variant)
//	TestC16Bytes     HTTP reply bodies / headers from a bencode lattice through the real HTTPTracker (plain)
//	TestC16BytesUDP  UDP datagram lattice and datagram sequences through the real transport (lab variant)
package trk16

import (
	"fmt"
	"os"
	"runtime"
	"sort"
	"strings"
	"sync"

	"github.com/cenkalti/rain/v2/zzverif/core"
)

// topRepoFrame returns the first frame of the current panic stack that lies in rain (not the harness).
func topRepoFrame() string {
	buf := make([]byte, 16384)
	n := runtime.Stack(buf, false)
	lines := strings.Split(string(buf[:n]), "\n")
	for i, ln := range lines {
		if strings.Contains(ln, "/repo/") && !strings.Contains(ln, "zzverif") && !strings.Contains(ln, "/verif/") {
			f := strings.TrimSpace(ln)
			if j := strings.Index(f, " +0x"); j > 0 {
				f = f[:j]
			}
			f = strings.TrimPrefix(f, "/repo/")
			fn := ""
			if i > 0 {
				fn = strings.TrimSpace(lines[i-1])
				if j := strings.LastIndex(fn, "("); j > 0 {
					fn = fn[:j]
				}
				if j := strings.LastIndex(fn, "/"); j >= 0 {
					fn = fn[j+1:]
				}
			}
			return fn + "@" + f
		}
	}
	return "unknown"
}

// frameKey strips the line number from a frame so that keys are stable under unrelated edits.
func frameKey(frame string) string {
	if j := strings.LastIndex(frame, ":"); j > 0 {
		frame = frame[:j]
	}
	if j := strings.Index(frame, "@"); j > 0 {
		return frame[:j]
	}
	return frame
}

var poisonMu sync.Mutex

// poisoned ends the run at once: the system under test left goroutines that can never finish (e.g. a
// Close that does not return), so the current synctest bubble cannot be left. The violation has been
// recorded by the caller; the rest of the enumeration is reported as cut short.
func poisoned(rep *core.Report, what string) {
	poisonMu.Lock() // never unlocked: the process exits
	rep.Cap("enumeration stopped early: " + what)
	rep.Finish()
	os.Exit(core.ExitViolation)
}

func sprintf(f string, a ...any) string { return fmt.Sprintf(f, a...) }

// violSet collects violations found by parallel workers and reports, per key, the case with the
// smallest enumeration index (cases are enumerated simplest-first), so that the text is deterministic.
type violSet struct {
	mu sync.Mutex
	m  map[string]*violRec
}

type violRec struct {
	idx    int64
	desc   string
	replay any
	count  int64
}

func (v *violSet) add(key string, idx int64, desc string, replay any) {
	v.mu.Lock()
	defer v.mu.Unlock()
	if v.m == nil {
		v.m = map[string]*violRec{}
	}
	r, ok := v.m[key]
	if !ok {
		v.m[key] = &violRec{idx: idx, desc: desc, replay: replay, count: 1}
		return
	}
	r.count++
	if idx < r.idx {
		r.idx, r.desc, r.replay = idx, desc, replay
	}
}

func (v *violSet) merge(key string, idx int64, desc string, replay any, count int64) {
	if count <= 0 {
		return
	}
	v.add(key, idx, desc, replay)
	v.mu.Lock()
	v.m[key].count += count - 1
	v.mu.Unlock()
}

func (v *violSet) flush(rep *core.Report) {
	v.mu.Lock()
	defer v.mu.Unlock()
	var keys []string
	for k := range v.m {
		keys = append(keys, k)
	}
	sort.Slice(keys, func(a, b int) bool {
		if v.m[keys[a]].idx != v.m[keys[b]].idx {
			return v.m[keys[a]].idx < v.m[keys[b]].idx
		}
		return keys[a] < keys[b]
	})
	for _, k := range keys {
		r := v.m[k]
		for c := int64(0); c < r.count; c++ {
			rep.Violate(k, r.desc, r.replay)
		}
	}
}

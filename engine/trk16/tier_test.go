//go:build verif

package trk16

import (
	"net/url"
	"context"
	"errors"
	"fmt"
	"strings"
	"testing"
	"time"

	"github.com/cenkalti/rain/v2/internal/logger"
	"github.com/cenkalti/rain/v2/internal/tracker"
	"github.com/cenkalti/rain/v2/zzverif/core"
)

// ---- scripted, gated tier members

type tierPending struct {
	pos     int       // position of the member in Tier.Trackers that was entered
	callID  int       // which Tier.Announce call this is
	release chan bool // explorer's answer: true = reply, false = error
	done    chan tierResult
	// overlapped: some other Tier.Announce call was in flight during this call
	overlapped bool
}

type tierResult struct {
	resp  *tracker.AnnounceResponse
	err   error
	panic string
}

type tierMember struct {
	id      int
	pos     int // position in Tier.Trackers after NewTier's shuffle
	entered chan *tierPending
	errVal  error
}

func (m *tierMember) URL() string { return fmt.Sprintf("http://member-%d/announce", m.id) }

func (m *tierMember) Announce(ctx context.Context, req tracker.AnnounceRequest) (*tracker.AnnounceResponse, error) {
	p := &tierPending{pos: m.pos, callID: req.NumWant, release: make(chan bool)}
	m.entered <- p
	if <-p.release {
		return &tracker.AnnounceResponse{Interval: time.Duration(1000*m.id+req.NumWant) * time.Second}, nil
	}
	return nil, m.errVal
}

// tierRun is one live execution: a real Tier over n scripted members plus the calls in flight.
type tierRun struct {
	n        int
	tier     *tracker.Tier
	members  []*tierMember // by position
	entered  chan *tierPending
	inflight []*tierPending
	nextCall int
	fault    string // first harness-visible misbehaviour (panic, out of range, wrong result)
	faultKey string
	// member and outcome of the last completed call if it overlapped with no other call (-1 = none)
	lastPos int
	lastOK  bool
}

func newTierRun(n int) *tierRun {
	r := &tierRun{n: n, entered: make(chan *tierPending), lastPos: -1}
	var trs []tracker.Tracker
	var ms []*tierMember
	for i := 0; i < n; i++ {
		// the kind of failure differs between members: a plain error, the error of an HTTP client whose timeout expired
		// (wraps context.DeadlineExceeded), an announce aborted by a cancellation that is not the caller's
		m := &tierMember{id: i, entered: r.entered, errVal: fmt.Errorf("scripted failure of member %d", i)}

		ms = append(ms, m)
		trs = append(trs, m)
	}
	r.tier = tracker.NewTier(trs) // real constructor; its shuffle is owned by reading the order back
	if len(r.tier.Trackers) != n {
		core.HarnessError("NewTier changed the number of members: %d -> %d", n, len(r.tier.Trackers))
	}
	seen := map[int]bool{}
	r.members = make([]*tierMember, n)
	for pos, t := range r.tier.Trackers {
		m, ok := t.(*tierMember)
		if !ok || seen[m.id] {
			core.HarnessError("NewTier did not return a permutation of its members")
		}
		seen[m.id] = true
		m.pos = pos
		r.members[pos] = m
		switch pos % 3 { // by position after the constructor's shuffle, so that a history means the same in every replay
		case 1:
			m.errVal = &url.Error{Op: "Get", URL: m.URL(), Err: fmt.Errorf("%w (Client.Timeout exceeded while awaiting headers)", context.DeadlineExceeded)}
		case 2:
			m.errVal = fmt.Errorf("scripted abort of member at position %d: %w", pos, context.Canceled)
		}
	}
	return r
}

func (r *tierRun) setFault(key, desc string) {
	if r.fault == "" {
		r.fault, r.faultKey = desc, key
	}
}

// start begins a Tier.Announce call and returns the position of the member it entered (-1 on fault).
func (r *tierRun) start() int {
	r.nextCall++
	id := r.nextCall
	done := make(chan tierResult, 1)
	go func() {
		var res tierResult
		defer func() {
			if p := recover(); p != nil {
				fr := topRepoFrame()
				res.panic = fmt.Sprintf("%v at %s", p, fr)
			}
			done <- res
		}()
		res.resp, res.err = r.tier.Announce(context.Background(), tracker.AnnounceRequest{NumWant: id})
	}()
	select {
	case p := <-r.entered:
		p.done = done
		if p.callID != id {
			core.HarnessError("tier harness: call id mismatch")
		}
		if p.pos < 0 || p.pos >= r.n {
			r.setFault("C16.tier.range", fmt.Sprintf("member position %d out of range", p.pos))
		}
		for _, q := range r.inflight {
			q.overlapped = true
			p.overlapped = true
		}
		r.lastPos, r.lastOK = -1, false
		r.inflight = append(r.inflight, p)
		return p.pos
	case res := <-done:
		if res.panic != "" {
			r.setFault("C16.tier.panic."+frameKey(strings.SplitN(res.panic, " at ", 2)[1]), "Tier.Announce panicked: "+res.panic)
		} else {
			r.setFault("C16.tier.no-member-called", fmt.Sprintf("Tier.Announce returned (%v,%v) without calling a member", res.resp, res.err))
		}
		return -1
	}
}

// release answers the i-th call in flight and waits for its Tier.Announce to return.
func (r *tierRun) release(i int, ok bool) {
	p := r.inflight[i]
	r.inflight = append(append([]*tierPending{}, r.inflight[:i]...), r.inflight[i+1:]...)
	p.release <- ok
	res := <-p.done
	if p.overlapped {
		r.lastPos, r.lastOK = -1, false
	} else {
		r.lastPos, r.lastOK = p.pos, ok
	}
	m := r.members[p.pos]
	switch {
	case res.panic != "":
		r.setFault("C16.tier.panic."+frameKey(strings.SplitN(res.panic, " at ", 2)[1]), "Tier.Announce panicked: "+res.panic)
	case ok && (res.err != nil || res.resp == nil || res.resp.Interval != time.Duration(1000*m.id+p.callID)*time.Second):
		r.setFault("C16.tier.result-passthrough", fmt.Sprintf("member at position %d replied but Tier.Announce returned (%+v,%v)", p.pos, res.resp, res.err))
	case !ok && (res.resp != nil || !errors.Is(res.err, m.errVal)):
		r.setFault("C16.tier.result-passthrough", fmt.Sprintf("member at position %d failed but Tier.Announce returned (%+v,%v)", p.pos, res.resp, res.err))
	}
}

// url calls Tier.URL and checks that it names a member (never panics).
func (r *tierRun) url() {
	defer func() {
		if p := recover(); p != nil {
			fr := topRepoFrame()
			r.setFault("C16.tier.panic."+frameKey(fr), fmt.Sprintf("Tier.URL panicked: %v at %s", p, fr))
		}
	}()
	u := r.tier.URL()
	for _, m := range r.members {
		if m.URL() == u {
			return
		}
	}
	r.setFault("C16.tier.range", "Tier.URL returned "+u+" which is no member's URL")
}

// ---- explorer

type tierOp struct {
	Kind string `json:"op"` // "start" | "release"
	I    int    `json:"i,omitempty"`
	OK   bool   `json:"ok,omitempty"`
}

func (o tierOp) String() string {
	if o.Kind == "start" {
		return "start"
	}
	a := "fail"
	if o.OK {
		a = "ok"
	}
	return fmt.Sprintf("release[%d]=%s", o.I, a)
}

func opsString(ops []tierOp) string {
	var s []string
	for _, o := range ops {
		s = append(s, o.String())
	}
	return strings.Join(s, " ")
}

// tierState is the explicit state of the search: the implementation's stored index (read in-package),
// the members entered by the calls in flight (start order), and — for the sequential laws — the
// member and outcome of the last call if that call overlapped with no other call.
type tierState struct {
	stored   int32
	inflight string
	lastPos  int // -1 = no sequential predecessor
	lastOK   bool
}

func (s tierState) key() string {
	return fmt.Sprintf("idx=%d inflight=[%s] last=%d/%v", s.stored, s.inflight, s.lastPos, s.lastOK)
}

type tierNode struct {
	state tierState
	path  []tierOp
}

// tierReplay builds a live run in the state reached by path and computes that state.
func tierReplay(n int, path []tierOp) (*tierRun, tierState) {
	r := newTierRun(n)
	for _, op := range path {
		if op.Kind == "start" {
			r.start()
		} else {
			r.release(op.I, op.OK)
		}
		if r.fault != "" {
			break
		}
	}
	return r, r.state()
}

func (r *tierRun) state() tierState {
	var inf []string
	for _, p := range r.inflight {
		s := fmt.Sprint(p.pos)
		if p.overlapped {
			s += "*"
		}
		inf = append(inf, s)
	}
	return tierState{stored: r.tier.VerifIndex(), inflight: strings.Join(inf, ","), lastPos: r.lastPos, lastOK: r.lastOK}
}

// drain lets every call in flight finish so that no goroutine is left behind.
func (r *tierRun) drain() {
	for len(r.inflight) > 0 {
		r.release(0, true)
	}
}

func TestC16Tier(t *testing.T) {
	logger.Disable()
	rep := core.NewReport("C16", "tier", "model_checking")
	maxN, maxInflight := 4, 2
	if core.Thorough() {
		maxN, maxInflight = 8, 4
	}
	rep.Rule = fmt.Sprintf("explicit-state BFS to a fixpoint on the real tracker.Tier (built by the real NewTier; the shuffle is owned by reading Tier.Trackers back) "+
		"for tiers of 1..%d gated scripted members. State = (stored index read in-package, members entered by calls in flight, member/outcome of the last non-overlapped call). "+
		"Transitions = {start a Tier.Announce (at most %d in flight), release call i with reply/error}; every interleaving of Load / member call / CAS of the calls in flight is a path. "+
		"At every transition the sequential laws are checked (after failure at i -> (i+1) mod n, after reply at i -> i); at every quiescent state additionally: "+
		"for every member j, if only j answers it is reached within n consecutive failures and is then used for n+1 further announces; URL() names a member. Distinct = distinct states.", maxN, maxInflight)
	rep.Assumptions = []string{
		"member trackers are black boxes that reply or fail; the tier is exercised through Announce and URL only",
		fmt.Sprintf("at most %d Tier.Announce calls overlap; tier sizes beyond %d are not executed (the index arithmetic is size-generic)", maxInflight, maxN),
	}
	var traces, trans, totalStates int64
	var wrapStates, concurrentMerges int64
	for n := 1; n <= maxN; n++ {
		seen := map[string]bool{}
		var queue []tierNode
		push := func(st tierState, path []tierOp) {
			k := st.key()
			if seen[k] {
				return
			}
			seen[k] = true
			rep.CountDistinct(fmt.Sprintf("n=%d %s", n, k))
			queue = append(queue, tierNode{st, append([]tierOp{}, path...)})
		}
		r0, st0 := tierReplay(n, nil)
		traces++
		if st0.stored != 0 {
			core.HarnessError("fresh tier has stored index %d", st0.stored)
		}
		r0.drain()
		push(st0, nil)
		violate := func(key string, path []tierOp, format string, a ...any) {
			rep.Violate(key, fmt.Sprintf("tier of %d members, history [%s]: %s", n, opsString(path), fmt.Sprintf(format, a...)),
				map[string]any{"n": n, "ops": path})
		}
		for len(queue) > 0 {
			node := queue[0]
			queue = queue[1:]
			if len(seen) > 200000 {
				rep.Cap("tier state budget")
				break
			}
			if int(node.state.stored) >= n {
				wrapStates++
			}
			// enabled operations in this state
			var ops []tierOp
			nInf := 0
			if node.state.inflight != "" {
				nInf = len(strings.Split(node.state.inflight, ","))
			}
			if nInf < maxInflight {
				ops = append(ops, tierOp{Kind: "start"})
			}
			for i := 0; i < nInf; i++ {
				ops = append(ops, tierOp{Kind: "release", I: i, OK: true}, tierOp{Kind: "release", I: i, OK: false})
			}
			for _, op := range ops {
				r, st := tierReplay(n, node.path)
				traces++
				if st.key() != node.state.key() {
					core.HarnessError("tier replay not deterministic: %s vs %s", st.key(), node.state.key())
				}
				path := append(append([]tierOp{}, node.path...), op)
				trans++
				if op.Kind == "start" {
					pos := r.start()
					// sequential laws: the call that starts now, with a non-overlapped predecessor
					if r.fault == "" && nInf == 0 && node.state.lastPos >= 0 {
						p := node.state.lastPos
						if node.state.lastOK && pos != p {
							violate("C16.tier.stay-after-reply", path, "member %d replied, but the next announce went to member %d", p, pos)
						}
						if !node.state.lastOK && pos != (p+1)%n {
							cls := "skipped"
							if pos == p {
								cls = "stuck"
							}
							violate("C16.tier.next-after-failure."+cls, path, "member %d failed, the next announce must go to member %d but went to member %d (stored index %d)",
								p, (p+1)%n, pos, node.state.stored)
						}
					}
				} else {
					r.release(op.I, op.OK)
				}
				if r.fault != "" {
					violate(r.faultKey, path, "%s", r.fault)
					r.drain()
					continue
				}
				r.url()
				if r.fault != "" {
					violate(r.faultKey, path, "%s", r.fault)
				}
				st2 := r.state()
				if st2.stored < 0 || int(st2.stored) > n {
					// stored index n is the implementation's "wrap on load" representation; anything else is out of range
					violate("C16.tier.range", path, "stored index %d outside 0..%d", st2.stored, n)
				}
				if nInf >= 2 && op.Kind == "release" {
					concurrentMerges++
				}
				r.drain()
				push(st2, path)
			}
			// laws of quiescent states
			if nInf == 0 {
				for j := 0; j < n; j++ {
					r, _ := tierReplay(n, node.path)
					traces++
					var hist []string
					reached := -1
					for k := 0; k <= n; k++ { // at most n failures, then the (n+1)-th call must be j at the latest
						pos := r.start()
						if r.fault != "" {
							break
						}
						trans++
						hist = append(hist, fmt.Sprint(pos))
						r.release(0, pos == j)
						if r.fault != "" {
							break
						}
						if pos == j {
							reached = k
							break
						}
					}
					if r.fault != "" {
						violate(r.faultKey, node.path, "then only member %d answers: %s", j, r.fault)
						r.drain()
						continue
					}
					if reached < 0 {
						violate("C16.tier.reach-within-cycle", node.path, "from stored index %d, only member %d answers: %d consecutive failed announces went to members [%s] and never to member %d",
							node.state.stored, j, n+1, strings.Join(hist, ","), j)
						r.drain()
						continue
					}
					for k := 0; k <= n; k++ {
						pos := r.start()
						if r.fault != "" {
							break
						}
						trans++
						r.release(0, pos == j)
						if pos != j {
							violate("C16.tier.keep-answering-member", node.path, "member %d answers and was reached, but a later announce went to member %d", j, pos)
							break
						}
					}
					if r.fault != "" {
						violate(r.faultKey, node.path, "%s", r.fault)
					}
					r.drain()
				}
			}
		}
		rep.Extra[fmt.Sprintf("states_n%d", n)] = int64(len(seen))
		totalStates += int64(len(seen))
		if n <= 3 {
			var ks []string
			for k := range seen {
				ks = append(ks, k)
			}
			if len(ks) > 0 {
				rep.Sample(6, fmt.Sprintf("n=%d: %d states, e.g. %s", n, len(ks), ks[len(ks)-1]))
			}
		}
	}
	rep.States = totalStates
	rep.Transitions = trans
	rep.TracesImpl = traces
	rep.Evaluations = trans
	rep.Extra["states_with_stored_index_eq_len"] = wrapStates
	rep.Extra["releases_with_two_or_more_calls_in_flight"] = concurrentMerges
	rep.Extra["bounds"] = fmt.Sprintf("n<=%d, in flight<=%d", maxN, maxInflight)
	if concurrentMerges == 0 || trans < 50 {
		rep.Vacuous("vacuous tier run: transitions=%d concurrent releases=%d", trans, concurrentMerges)
	}
	rep.Finish()
}

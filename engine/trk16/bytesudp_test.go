//go:build verif

package trk16

import (
	"encoding/binary"
	"encoding/json"
	"errors"
	"fmt"
	"sort"
	"strings"
	"testing"
	"testing/synctest"
	"time"

	"github.com/cenkalti/rain/v2/internal/logger"
	"github.com/cenkalti/rain/v2/internal/tracker"
	"github.com/cenkalti/rain/v2/zzverif/core"
	"github.com/cenkalti/rain/v2/zzverif/refcodec"
)

// udpVariant builds one tracker->client datagram for the transaction id the client is waiting on.
type udpVariant struct {
	Name    string
	RightTx bool
	build   func(tx uint32) []byte
}

func fitLen(b []byte, n int) []byte {
	if n <= len(b) {
		return b[:n]
	}
	return append(b, make([]byte, n-len(b))...)
}

func udpErrorPayloads() []struct {
	name string
	b    []byte
} {
	return []struct {
		name string
		b    []byte
	}{
		{"benc-reason", refcodec.Benc(refcodec.D("failure reason", "go away"))},
		{"benc-reason-retry5", refcodec.Benc(refcodec.D("failure reason", "go away", "retry in", "5"))},
		{"benc-reason-retry-nan", refcodec.Benc(refcodec.D("failure reason", "go away", "retry in", "soon"))},
		{"benc-reason-int", refcodec.Benc(refcodec.D("failure reason", 5))},
		{"plain-text", []byte("torrent not registered")},
		{"empty", nil},
		{"garbage", []byte{0xff, 0x00, 'd', 'e', 0x80}},
		{"open-dict", []byte("d14:failure reason")},
		{"deep-lists", []byte(strings.Repeat("l", 500))},
		{"declared-1MiB-string", []byte("d14:failure reason1048576:x")},
	}
}

func udpConnectVariants() []udpVariant {
	var vs []udpVariant
	actions := []uint32{0, 1, 2, 3, 0xffffffff}
	lens := []int{16, 0, 1, 7, 8, 12, 15, 17, 100}
	for _, right := range []bool{true, false} {
		for _, a := range actions {
			for _, n := range lens {
				a, n, right := a, n, right
				vs = append(vs, udpVariant{Name: fmt.Sprintf("connect{action=%d len=%d righttx=%v}", int32(a), n, right), RightTx: right, build: func(tx uint32) []byte {
					b := udpConnectReply(tx, 0x2222000000000001)
					binary.BigEndian.PutUint32(b[0:], a)
					return fitLen(b, n)
				}})
			}
		}
		for _, p := range udpErrorPayloads() {
			p, right := p, right
			vs = append(vs, udpVariant{Name: fmt.Sprintf("connect{error action, payload=%s righttx=%v}", p.name, right), RightTx: right, build: func(tx uint32) []byte {
				return udpErrorReply(tx, p.b)
			}})
		}
	}
	return vs
}

func udpAnnounceVariants() []udpVariant {
	var vs []udpVariant
	actions := []uint32{1, 0, 2, 3, 0xffffffff}
	intervals := []int32{1800, 0, 1, -1, 2147483647, -2147483648}
	peerLens := []int{6, 0, 5, 7, 12, 6000, 6006}
	cuts := []int{0, 7, 8, 12, 19}
	for _, right := range []bool{true, false} {
		for _, a := range actions {
			for _, iv := range intervals {
				for _, pl := range peerLens {
					a, iv, pl, right := a, iv, pl, right
					vs = append(vs, udpVariant{Name: fmt.Sprintf("announce{action=%d interval=%d peers=%dB righttx=%v}", int32(a), iv, pl, right), RightTx: right, build: func(tx uint32) []byte {
						b := udpAnnounceReply(tx, iv, compactPeers(pl))
						binary.BigEndian.PutUint32(b[0:], a)
						return b
					}})
				}
			}
			for _, n := range cuts {
				a, n, right := a, n, right
				vs = append(vs, udpVariant{Name: fmt.Sprintf("announce{action=%d cut to %dB righttx=%v}", int32(a), n, right), RightTx: right, build: func(tx uint32) []byte {
					b := udpAnnounceReply(tx, 1800, compactPeers(6))
					binary.BigEndian.PutUint32(b[0:], a)
					return fitLen(b, n)
				}})
			}
		}
		for _, p := range udpErrorPayloads() {
			p, right := p, right
			vs = append(vs, udpVariant{Name: fmt.Sprintf("announce{error action, payload=%s righttx=%v}", p.name, right), RightTx: right, build: func(tx uint32) []byte {
				return udpErrorReply(tx, p.b)
			}})
		}
	}
	return vs
}

type udpAgg struct {
	Execs       int64              `json:"execs"`
	OK          int64              `json:"ok"`
	Errs        int64              `json:"errs"`
	Ignored     int64              `json:"ignored"` // datagrams after which the request was still pending
	TrackerErrs int64              `json:"tracker_errs"`
	Viol        map[string]*trViol `json:"viol"`
	VIdx        map[string]int64   `json:"vidx"`
}

func (a *udpAgg) addViol(key, desc string, idx int64, count int64) {
	if a.Viol == nil {
		a.Viol, a.VIdx = map[string]*trViol{}, map[string]int64{}
	}
	v, ok := a.Viol[key]
	if !ok {
		a.Viol[key] = &trViol{Desc: desc, Count: count}
		a.VIdx[key] = idx
		return
	}
	v.Count += count
	if idx < a.VIdx[key] {
		v.Desc = desc
		a.VIdx[key] = idx
	}
}

// runUDPBytes: one request; datagram sequence [connect variant, (valid connect), announce variant, (dup), (valid announce)].
func runUDPBytes(ag *udpAgg, idx int64, cv, av udpVariant) {
	name := cv.Name + " then " + av.Name
	viol := func(key, desc string) { ag.addViol(key, "datagrams ["+name+"]: "+desc, idx, 1) }
	l := newTrLab(func(key, desc string) { viol(strings.Replace(key, "C16.transport.", "C16.bytes.udp.", 1), desc) })
	l.start(0, true)
	l.settle()
	r := l.reqs[0]
	r.checked = true // the content oracles are applied by examine below; l.check keeps the panic / blocked-call oracles
	examine := func(stage string, data []byte, rightTx bool, isAnnounce bool) (returned bool) {
		if !r.returned.Load() {
			ag.Ignored++
			return false
		}
		if !rightTx {
			viol("C16.bytes.udp.reply-for-other-transaction", fmt.Sprintf("%s: the request returned (%s, %v) on a datagram that carries an unknown transaction id", stage, respString(r.resp), r.err))
		}
		switch {
		case r.err == nil && r.resp == nil:
			viol("C16.bytes.udp.nil-nil", stage+": Announce returned neither response nor error")
		case r.err == nil:
			ag.OK++
			if !isAnnounce {
				viol("C16.bytes.udp.reply-for-other-transaction", fmt.Sprintf("%s: Announce succeeded with %s although no announce reply had been sent", stage, respString(r.resp)))
				break
			}
			if k, d := wellFormedPeers(r.resp.Peers); k != "" {
				viol("C16.bytes.udp."+k, stage+": accepted; "+d)
			}
			// reference decoding of the datagram (as the 6020-byte receive buffer sees it)
			if len(data) > 6020 {
				data = data[:6020]
			}
			if len(data) >= 20 {
				want := (len(data) - 20) / 6
				wantIv := time.Duration(int32(binary.BigEndian.Uint32(data[8:12]))) * time.Second
				if len(r.resp.Peers) != want || r.resp.Interval != wantIv {
					viol("C16.bytes.udp.content-mismatch", fmt.Sprintf("%s: accepted with %d peers / interval %v, the datagram holds %d peers / interval %v", stage, len(r.resp.Peers), r.resp.Interval, want, wantIv))
				} else {
					for i, p := range r.resp.Peers {
						o := 20 + 6*i
						if len(p.IP) != 4 || string(p.IP) != string(data[o:o+4]) || p.Port != int(binary.BigEndian.Uint16(data[o+4:o+6])) {
							viol("C16.bytes.udp.content-mismatch", fmt.Sprintf("%s: peer %d is %v, the datagram says %v:%d", stage, i, p, data[o:o+4], binary.BigEndian.Uint16(data[o+4:o+6])))
							break
						}
					}
				}
			} else {
				viol("C16.bytes.udp.content-mismatch", fmt.Sprintf("%s: a datagram of %d bytes was accepted as an announce reply", stage, len(data)))
			}
		default:
			ag.Errs++
			var te *tracker.Error
			if errors.As(r.err, &te) {
				ag.TrackerErrs++
			}
		}
		return true
	}
	done := false
	if tx, ok := l.openConnTxid(); ok {
		if !cv.RightTx {
			tx ^= 0x40000000
		}
		d := cv.build(tx)
		l.conn.Inject(d)
		l.settle()
		l.check(trOp{Kind: "conn"}, tx, true)
		done = examine("after "+cv.Name, d, cv.RightTx, false)
	} else {
		core.HarnessError("udp bytes: no connect request seen")
	}
	if !done {
		if _, ok := r.openAnnTxid(); !ok {
			// the connect variant did not establish the connection: send a valid connect reply
			tx, ok := l.openConnTxid()
			if !ok {
				viol("C16.bytes.udp.request-wedged", "after "+cv.Name+": the request is pending, but there is neither an open connect nor an announce transaction on the wire")
			} else {
				l.connAnswer[tx] = true
				l.conn.Inject(udpConnectReply(tx, 0x3333000000000001))
				l.settle()
				if r.returned.Load() {
					viol("C16.bytes.udp.valid-connect-fails", fmt.Sprintf("after %s a valid connect reply made the request return (%s, %v)", cv.Name, respString(r.resp), r.err))
					done = true
				}
			}
		}
	}
	if !done {
		tx, ok := r.openAnnTxid()
		if !ok {
			if !r.returned.Load() {
				viol("C16.bytes.udp.request-wedged", "after "+cv.Name+" and a valid connect reply no announce request was sent")
			}
		} else {
			itx := tx
			if !av.RightTx {
				itx ^= 0x40000000
			}
			d := av.build(itx)
			l.conn.Inject(d)
			l.settle()
			l.check(trOp{Kind: "ann"}, itx, true)
			done = examine("after "+av.Name, d, av.RightTx, true)
			if !done {
				// duplicate of the same datagram, then a valid reply: the request must complete with the valid one
				l.conn.Inject(d)
				l.settle()
				if r.returned.Load() {
					done = examine("after a duplicate of "+av.Name, d, av.RightTx, true)
				}
			}
			if !done {
				good := udpAnnounceReply(tx, 777, compactPeers(12))
				l.conn.Inject(good)
				l.settle()
				if !r.returned.Load() {
					viol("C16.bytes.udp.request-wedged", "after "+av.Name+" a valid announce reply for the open transaction does not complete the request")
				} else {
					examine("valid announce reply after "+av.Name, good, true, true)
					if r.err != nil {
						viol("C16.bytes.udp.valid-announce-fails", fmt.Sprintf("after %s (ignored) a valid announce reply is answered with error %v", av.Name, r.err))
					}
				}
			}
		}
	}
	r.checked = true
	l.finish()
	ag.Execs++
}

type udpJob struct {
	Lo, Hi int
	Full   bool
}

func udpPairs(full bool) (cs, as []udpVariant, pairs [][2]int) {
	cs, as = udpConnectVariants(), udpAnnounceVariants()
	if full {
		for i := range cs {
			for j := range as {
				pairs = append(pairs, [2]int{i, j})
			}
		}
		return
	}
	// quick: every connect variant x the boundary announce variants, the valid connect x every announce variant
	repA := map[int]bool{}
	for j, a := range as {
		if a.RightTx && (strings.Contains(a.Name, "action=1 interval=1800 peers=6B") || strings.Contains(a.Name, "action=1 interval=1800 peers=7B") ||
			strings.Contains(a.Name, "action=1 cut to 12B") || strings.Contains(a.Name, "payload=benc-reason ")) {
			repA[j] = true
		}
	}
	for i := range cs {
		for j := range as {
			if i == 0 || repA[j] {
				pairs = append(pairs, [2]int{i, j})
			}
		}
	}
	return
}

func TestC16BytesUDP(t *testing.T) {
	logger.Disable()
	if core.IsWorker() {
		core.WorkerMain(func(job core.Job) json.RawMessage {
			var j udpJob
			if err := json.Unmarshal(job.Data, &j); err != nil {
				core.HarnessError("bad job: %v", err)
			}
			cs, as, pairs := udpPairs(j.Full)
			ag := &udpAgg{}
			for p := j.Lo; p < j.Hi; p++ {
				synctest.Test(t, func(t *testing.T) { runUDPBytes(ag, int64(p), cs[pairs[p][0]], as[pairs[p][1]]) })
			}
			b, _ := json.Marshal(ag)
			return b
		})
		return
	}
	rep := core.NewReport("C16", "bytes-udp", "exploration")
	full := core.Thorough()
	cs, as, pairs := udpPairs(full)
	rep.Rule = fmt.Sprintf("one UDPTracker.Announce on the real transport (vnet socket, virtual time); datagram sequences [connect-reply variant, valid connect reply if still needed, announce-reply variant, its duplicate, valid announce reply if still needed]; "+
		"connect variants (%d) = {action 0,1,2,3,-1} x {length 0,1,7,8,12,15,16,17,100} x {right, unknown transaction id} + error-action payloads {bencoded reason, +retry in, non-numeric retry, integer reason, plain text, empty, garbage, open dict, 500 nested lists, declared 1 MiB string}; "+
		"announce variants (%d) = {action 1,0,2,3,-1} x {interval 0,1,1800,-1,max32,min32} x {peers 0,5,6,7,12,6000,6006 bytes} + cuts to 0,7,8,12,19 bytes + the error payloads, each with right/unknown transaction id; "+
		"thorough: full product; quick: all connect variants x 4 boundary announce variants + valid connect x all announce variants. "+
		"Oracle: the request returns an error or a peer list of 4-byte IPv4 addresses equal to the reference decoding of the datagram; never on a datagram with an unknown transaction id; never success without an announce reply; "+
		"an ignored datagram leaves the request completable by a valid reply; cancel/Close make everything return; no panic (a dying worker process is reported as a crash). Distinct = executed sequences.", len(cs), len(as))
	rep.Assumptions = []string{
		"byte values of peers are one representative pattern per length class; lengths and header fields are the lattice",
		"a declared 2 GiB bencode string in an error payload is not sent (it makes zeebo/bencode allocate 2 GiB; see the HTTP part's observation)",
	}
	n := len(pairs)
	nJobs := core.Parallelism() * 4
	var jobs []core.Job
	for k := 0; k < nJobs; k++ {
		lo, hi := n*k/nJobs, n*(k+1)/nJobs
		if hi > lo {
			b, _ := json.Marshal(udpJob{Lo: lo, Hi: hi, Full: full})
			jobs = append(jobs, core.Job{ID: len(jobs), Data: b})
		}
	}
	results := core.RunSharded("TestC16BytesUDP", jobs, 20*time.Minute)
	sort.Slice(results, func(a, b int) bool { return results[a].ID < results[b].ID })
	total := &udpAgg{}
	for _, r := range results {
		if r.Hang {
			rep.Cap(fmt.Sprintf("udp bytes shard %d exceeded its wall budget", r.ID))
			continue
		}
		if r.Crash != "" {
			var j udpJob
			json.Unmarshal(jobs[r.ID].Data, &j)
			total.addViol("C16.bytes.udp.crash", fmt.Sprintf("a worker process died while running datagram sequences %d..%d (first: %s then %s):\n%s", j.Lo, j.Hi, cs[pairs[j.Lo][0]].Name, as[pairs[j.Lo][1]].Name, clipStr(r.Crash, 1500)), int64(j.Lo), 1)
			continue
		}
		var ag udpAgg
		if err := json.Unmarshal(r.Data, &ag); err != nil {
			core.HarnessError("bad shard result: %v", err)
		}
		total.Execs += ag.Execs
		total.OK += ag.OK
		total.Errs += ag.Errs
		total.Ignored += ag.Ignored
		total.TrackerErrs += ag.TrackerErrs
		for k, v := range ag.Viol {
			total.addViol(k, v.Desc, ag.VIdx[k], v.Count)
		}
	}
	var keys []string
	for k := range total.Viol {
		keys = append(keys, k)
	}
	sort.Strings(keys)
	for _, k := range keys {
		v := total.Viol[k]
		for c := int64(0); c < v.Count; c++ {
			rep.Violate(k, v.Desc, map[string]any{"pair_index": total.VIdx[k]})
		}
	}
	for i := 0; i < n; i += n/8 + 1 {
		rep.Sample(8, cs[pairs[i][0]].Name+" then "+as[pairs[i][1]].Name)
	}
	rep.Evaluations = total.Execs
	rep.Distinct = total.Execs
	rep.Extra["connect_variants"] = int64(len(cs))
	rep.Extra["announce_variants"] = int64(len(as))
	rep.Extra["announce_returned_ok"] = total.OK
	rep.Extra["announce_returned_error"] = total.Errs
	rep.Extra["announce_returned_tracker_failure"] = total.TrackerErrs
	rep.Extra["datagrams_ignored_request_still_pending"] = total.Ignored
	if total.Execs != int64(n) && len(total.Viol) == 0 {
		core.HarnessError("udp bytes: executed %d of %d sequences", total.Execs, n)
	}
	if total.OK == 0 || total.Errs == 0 || total.Ignored == 0 || total.TrackerErrs == 0 {
		rep.Vacuous("vacuous udp bytes run: %+v", total)
	}
	rep.Finish()
}

// Package vsync replaces package sync in the few files whose locks the thread explorer (E3) must see:
// torrent/session.go, torrent/torrent.go and bbolt's db.go (import rewrite). Mutex and RWMutex are built
// on channels created lazily, so a goroutine waiting for a lock is *durably blocked* inside a synctest
// bubble (a real sync.Mutex is not), and every acquire by a controlled thread is a scheduling point.
// With no Hook installed the types behave like ordinary locks (RWMutex with Go's writer preference).
//
// This package is copied into the private bbolt module copy (go.etcd.io/bbolt/vsync) by vcheck so that
// both rain and bbolt can import it.
package vsync

import (
	"sync"
)

type (
	Pool      = sync.Pool
	Once      = sync.Once
	WaitGroup = sync.WaitGroup
	Cond      = sync.Cond
	Map       = sync.Map
	Locker    = sync.Locker
)

var NewCond = sync.NewCond

// Hook, if set, is called at the entry of every Lock/RLock (before acquiring). The thread explorer parks
// controlled goroutines there.
var Hook func(op string, lock any)

// ---- Mutex

type Mutex struct {
	init sync.Once
	ch   chan struct{}
}

func (m *Mutex) lazy() { m.init.Do(func() { m.ch = make(chan struct{}, 1) }) }

func (m *Mutex) Lock() {
	m.lazy()
	if h := Hook; h != nil {
		h("Lock", m)
	}
	m.ch <- struct{}{}
}

func (m *Mutex) TryLock() bool {
	m.lazy()
	select {
	case m.ch <- struct{}{}:
		return true
	default:
		return false
	}
}

func (m *Mutex) Unlock() {
	m.lazy()
	select {
	case <-m.ch:
	default:
		panic("vsync: unlock of unlocked mutex")
	}
}

// ---- RWMutex (writer preference: a pending Lock excludes new readers, like sync.RWMutex)

type RWMutex struct {
	mu       sync.Mutex // guards the fields below, never held while blocking
	readers  int
	writer   bool
	wWaiting []chan struct{}
	rWaiting []chan struct{}
	afterWriter bool
}

func (rw *RWMutex) Lock() {
	if h := Hook; h != nil {
		h("Lock", rw)
	}
	rw.mu.Lock()
	if !rw.writer && rw.readers == 0 && len(rw.wWaiting) == 0 {
		rw.writer = true
		rw.mu.Unlock()
		return
	}
	c := make(chan struct{})
	rw.wWaiting = append(rw.wWaiting, c)
	rw.mu.Unlock()
	<-c // ownership is handed over by the releaser
}

func (rw *RWMutex) Unlock() {
	rw.mu.Lock()
	if !rw.writer {
		rw.mu.Unlock()
		panic("vsync: Unlock of unlocked RWMutex")
	}
	rw.writer = false
	rw.afterWriter = true
	rw.release()
	rw.afterWriter = false
	rw.mu.Unlock()
}

func (rw *RWMutex) RLock() {
	if h := Hook; h != nil {
		h("RLock", rw)
	}
	rw.mu.Lock()
	if !rw.writer && len(rw.wWaiting) == 0 {
		rw.readers++
		rw.mu.Unlock()
		return
	}
	c := make(chan struct{})
	rw.rWaiting = append(rw.rWaiting, c)
	rw.mu.Unlock()
	<-c
}

func (rw *RWMutex) RUnlock() {
	rw.mu.Lock()
	if rw.readers <= 0 {
		rw.mu.Unlock()
		panic("vsync: RUnlock of unlocked RWMutex")
	}
	rw.readers--
	if rw.readers == 0 {
		rw.release()
	}
	rw.mu.Unlock()
}

// release hands the lock over; rw.mu is held. Same order as sync.RWMutex: after a writer leaves, the
// readers that queued behind it go first; after the last reader leaves, the pending writer goes.
func (rw *RWMutex) release() {
	if rw.writer || rw.readers > 0 {
		return
	}
	if rw.afterWriter && len(rw.rWaiting) > 0 {
		for _, c := range rw.rWaiting {
			rw.readers++
			close(c)
		}
		rw.rWaiting = nil
		return
	}
	if len(rw.wWaiting) > 0 {
		c := rw.wWaiting[0]
		rw.wWaiting = rw.wWaiting[1:]
		rw.writer = true
		close(c)
		return
	}
	for _, c := range rw.rWaiting {
		rw.readers++
		close(c)
	}
	rw.rWaiting = nil
}

func (rw *RWMutex) RLocker() sync.Locker { return (*rlocker)(rw) }

type rlocker RWMutex

func (r *rlocker) Lock()   { (*RWMutex)(r).RLock() }
func (r *rlocker) Unlock() { (*RWMutex)(r).RUnlock() }

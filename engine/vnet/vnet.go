//go:build verif

// Package vnet is the in-memory network the lab substitutes for package net in the few rain files
// that open sockets (import rewrite done by mkoverlay). Listeners, dialer, UDP socket and conns
// block on sync.Cond / channels created inside the current synctest bubble, so a goroutine waiting
// on the "network" is durably blocked and the explorer owns every delivery.
package vnet

import (
	"context"
	"errors"
	"fmt"
	"io"
	"net"
	"os"
	"sync"
	"time"
)

type (
	IP       = net.IP
	IPNet    = net.IPNet
	TCPAddr  = net.TCPAddr
	UDPAddr  = net.UDPAddr
	Addr     = net.Addr
	Conn     = net.Conn
	Listener = net.Listener
	Error    = net.Error
	OpError  = net.OpError
)

var (
	ParseIP          = net.ParseIP
	SplitHostPort    = net.SplitHostPort
	JoinHostPort     = net.JoinHostPort
	IPv4             = net.IPv4
	ResolveTCPAddr   = net.ResolveTCPAddr
	ErrClosed        = net.ErrClosed
	ErrRefused       = errors.New("vnet: connection refused")
	ErrAddrInUse     = errors.New("vnet: address already in use")
	errTimeout error = &timeoutError{}
)

type timeoutError struct{}

func (*timeoutError) Error() string   { return "vnet: i/o timeout" }
func (*timeoutError) Timeout() bool   { return true }
func (*timeoutError) Temporary() bool { return true }
func (*timeoutError) Is(err error) bool {
	return err == os.ErrDeadlineExceeded || err == context.DeadlineExceeded
}

// ---------------------------------------------------------------------------------------------
// World: everything network-ish of one execution. Reset() at the start of every bubble.

type DialEvent struct {
	Addr string
	At   time.Time
}

type Datagram struct {
	To   string
	Data []byte
}

type World struct {
	mu        sync.Mutex
	listeners map[int]*TCPListener
	// DialHook decides the fate of an outgoing TCP dial. Return (conn, nil) to connect, (nil, err) to
	// refuse, (nil, nil) to hang until the dialer's context/timeout expires.
	DialHook func(addr string) (net.Conn, error)
	Dials    []DialEvent
	UDP      []*UDPConn
	// ListenErr makes ListenTCP fail for that port.
	ListenErr map[int]error
}

var (
	wmu sync.Mutex
	W   *World
)

func Reset() *World {
	wmu.Lock()
	defer wmu.Unlock()
	W = &World{listeners: map[int]*TCPListener{}, ListenErr: map[int]error{}}
	return W
}

func world() *World {
	wmu.Lock()
	defer wmu.Unlock()
	if W == nil {
		W = &World{listeners: map[int]*TCPListener{}, ListenErr: map[int]error{}}
	}
	return W
}

// ---------------------------------------------------------------------------------------------
// Conn: one end of an in-memory duplex stream.

type half struct {
	mu     sync.Mutex
	cond   *sync.Cond
	buf    []byte
	closed bool // writer closed (reader sees EOF after draining) or reader closed
	total  int64
}

func newHalf() *half { h := &half{}; h.cond = sync.NewCond(&h.mu); return h }

type End struct {
	r, w          *half
	local, remote net.Addr
	mu            sync.Mutex
	closedLocal   bool
	rdl, wdl      time.Time
	rtimer        *time.Timer
	// MaxRead, if > 0, caps the bytes returned by one Read (forces short reads).
	MaxRead int
}

// NewPair returns the two ends of a connection between addresses a and b.
func NewPair(a, b net.Addr) (*End, *End) {
	x, y := newHalf(), newHalf()
	return &End{r: x, w: y, local: a, remote: b}, &End{r: y, w: x, local: b, remote: a}
}

func (e *End) Read(p []byte) (int, error) {
	h := e.r
	h.mu.Lock()
	defer h.mu.Unlock()
	for len(h.buf) == 0 {
		if e.isClosedLocal() {
			return 0, net.ErrClosed
		}
		if h.closed {
			return 0, io.EOF
		}
		e.mu.Lock()
		dl := e.rdl
		e.mu.Unlock()
		if !dl.IsZero() && !time.Now().Before(dl) {
			return 0, errTimeout
		}
		h.cond.Wait()
	}
	if len(p) == 0 {
		return 0, nil
	}
	n := len(p)
	if e.MaxRead > 0 && n > e.MaxRead {
		n = e.MaxRead
	}
	n = copy(p[:n], h.buf)
	h.buf = h.buf[n:]
	return n, nil
}

func (e *End) isClosedLocal() bool {
	e.mu.Lock()
	defer e.mu.Unlock()
	return e.closedLocal
}

func (e *End) Write(p []byte) (int, error) {
	if e.isClosedLocal() {
		return 0, net.ErrClosed
	}
	h := e.w
	h.mu.Lock()
	defer h.mu.Unlock()
	if h.closed {
		return 0, io.ErrClosedPipe
	}
	h.buf = append(h.buf, p...)
	h.total += int64(len(p))
	h.cond.Broadcast()
	return len(p), nil
}

func (e *End) Close() error {
	e.mu.Lock()
	if e.closedLocal {
		e.mu.Unlock()
		return nil
	}
	e.closedLocal = true
	if e.rtimer != nil {
		e.rtimer.Stop()
	}
	e.mu.Unlock()
	for _, h := range []*half{e.r, e.w} {
		h.mu.Lock()
		h.closed = true
		h.cond.Broadcast()
		h.mu.Unlock()
	}
	return nil
}

func (e *End) LocalAddr() net.Addr  { return e.local }
func (e *End) RemoteAddr() net.Addr { return e.remote }

func (e *End) SetDeadline(t time.Time) error {
	e.SetReadDeadline(t)
	return e.SetWriteDeadline(t)
}

func (e *End) SetReadDeadline(t time.Time) error {
	e.mu.Lock()
	defer e.mu.Unlock()
	e.rdl = t
	if e.rtimer != nil {
		e.rtimer.Stop()
		e.rtimer = nil
	}
	if !t.IsZero() {
		d := time.Until(t)
		if d < 0 {
			d = 0
		}
		h := e.r
		e.rtimer = time.AfterFunc(d, func() {
			h.mu.Lock()
			h.cond.Broadcast()
			h.mu.Unlock()
		})
	}
	return nil
}

func (e *End) SetWriteDeadline(t time.Time) error { e.mu.Lock(); e.wdl = t; e.mu.Unlock(); return nil }

// ---- lab-side helpers (never used by rain)

// Drain returns and removes everything the other side has written so far (non-blocking).
func (e *End) Drain() []byte {
	h := e.r
	h.mu.Lock()
	defer h.mu.Unlock()
	b := h.buf
	h.buf = nil
	return b
}

// Pending is the number of bytes written to this end and not read yet.
func (e *End) Pending() int { h := e.r; h.mu.Lock(); defer h.mu.Unlock(); return len(h.buf) }

// RemoteClosed reports whether the other end has been closed.
func (e *End) RemoteClosed() bool { h := e.r; h.mu.Lock(); defer h.mu.Unlock(); return h.closed && !e.isClosedLocal() }

// LocalClosed reports whether Close was called on this end.
func (e *End) LocalClosed() bool { return e.isClosedLocal() }

// TotalWritten is the number of bytes ever written into this end's outgoing half.
func (e *End) TotalWritten() int64 { h := e.w; h.mu.Lock(); defer h.mu.Unlock(); return h.total }

// ---------------------------------------------------------------------------------------------
// TCP listener

type TCPListener struct {
	w      *World
	addr   *TCPAddr
	mu     sync.Mutex
	cond   *sync.Cond
	q      []net.Conn
	closed bool
}

func ListenTCP(network string, laddr *TCPAddr) (*TCPListener, error) {
	w := world()
	w.mu.Lock()
	defer w.mu.Unlock()
	if err := w.ListenErr[laddr.Port]; err != nil {
		return nil, err
	}
	if _, ok := w.listeners[laddr.Port]; ok {
		return nil, &net.OpError{Op: "listen", Net: network, Addr: laddr, Err: ErrAddrInUse}
	}
	l := &TCPListener{w: w, addr: &TCPAddr{IP: laddr.IP, Port: laddr.Port}}
	l.cond = sync.NewCond(&l.mu)
	w.listeners[laddr.Port] = l
	return l, nil
}

func (l *TCPListener) Accept() (net.Conn, error) {
	l.mu.Lock()
	defer l.mu.Unlock()
	for len(l.q) == 0 {
		if l.closed {
			return nil, net.ErrClosed
		}
		l.cond.Wait()
	}
	c := l.q[0]
	l.q = l.q[1:]
	return c, nil
}

func (l *TCPListener) Close() error {
	l.mu.Lock()
	if l.closed {
		l.mu.Unlock()
		return nil
	}
	l.closed = true
	q := l.q
	l.q = nil
	l.cond.Broadcast()
	l.mu.Unlock()
	for _, c := range q {
		c.Close()
	}
	l.w.mu.Lock()
	if l.w.listeners[l.addr.Port] == l {
		delete(l.w.listeners, l.addr.Port)
	}
	l.w.mu.Unlock()
	return nil
}

func (l *TCPListener) Addr() net.Addr { return l.addr }

// Listening reports whether something listens on port.
func (w *World) Listening(port int) bool { w.mu.Lock(); defer w.mu.Unlock(); _, ok := w.listeners[port]; return ok }

func (w *World) ListeningPorts() []int {
	w.mu.Lock()
	defer w.mu.Unlock()
	var ps []int
	for p := range w.listeners {
		ps = append(ps, p)
	}
	return ps
}

// Connect makes an incoming connection from remote to the listener on port and returns the lab's end.
func (w *World) Connect(port int, remote *TCPAddr) (*End, error) {
	w.mu.Lock()
	l := w.listeners[port]
	w.mu.Unlock()
	if l == nil {
		return nil, ErrRefused
	}
	cli, lab := NewPair(&TCPAddr{IP: l.addr.IP, Port: port}, remote)
	l.mu.Lock()
	defer l.mu.Unlock()
	if l.closed {
		return nil, ErrRefused
	}
	l.q = append(l.q, cli)
	l.cond.Broadcast()
	return lab, nil
}

// ---------------------------------------------------------------------------------------------
// Dialer

type Dialer struct {
	Timeout   time.Duration
	Deadline  time.Time
	LocalAddr net.Addr
	KeepAlive time.Duration
}

func (d *Dialer) DialContext(ctx context.Context, network, address string) (net.Conn, error) {
	w := world()
	w.mu.Lock()
	w.Dials = append(w.Dials, DialEvent{Addr: address, At: time.Now()})
	hook := w.DialHook
	w.mu.Unlock()
	if hook == nil {
		return nil, &net.OpError{Op: "dial", Net: network, Err: ErrRefused}
	}
	c, err := hook(address)
	if err != nil {
		return nil, &net.OpError{Op: "dial", Net: network, Err: err}
	}
	if c != nil {
		return c, nil
	}
	// hang until timeout / ctx
	var tc <-chan time.Time
	if d.Timeout > 0 {
		t := time.NewTimer(d.Timeout)
		defer t.Stop()
		tc = t.C
	}
	select {
	case <-ctx.Done():
		return nil, &net.OpError{Op: "dial", Net: network, Err: ctx.Err()}
	case <-tc:
		return nil, &net.OpError{Op: "dial", Net: network, Err: errTimeout}
	}
}

func (d *Dialer) Dial(network, address string) (net.Conn, error) {
	return d.DialContext(context.Background(), network, address)
}

func (w *World) DialLog() []DialEvent {
	w.mu.Lock()
	defer w.mu.Unlock()
	return append([]DialEvent{}, w.Dials...)
}

// ---------------------------------------------------------------------------------------------
// UDP socket (client side only: rain's UDP tracker transport)

type UDPConn struct {
	w      *World
	mu     sync.Mutex
	cond   *sync.Cond
	in     [][]byte
	Sent   []Datagram
	closed bool
}

func ListenUDP(network string, laddr *UDPAddr) (*UDPConn, error) {
	w := world()
	c := &UDPConn{w: w}
	c.cond = sync.NewCond(&c.mu)
	w.mu.Lock()
	w.UDP = append(w.UDP, c)
	w.mu.Unlock()
	return c, nil
}

func (c *UDPConn) Read(b []byte) (int, error) {
	c.mu.Lock()
	defer c.mu.Unlock()
	for len(c.in) == 0 {
		if c.closed {
			return 0, net.ErrClosed
		}
		c.cond.Wait()
	}
	p := c.in[0]
	c.in = c.in[1:]
	return copy(b, p), nil
}

func (c *UDPConn) ReadFrom(b []byte) (int, net.Addr, error) {
	n, err := c.Read(b)
	return n, &UDPAddr{}, err
}

func (c *UDPConn) WriteTo(b []byte, addr net.Addr) (int, error) {
	c.mu.Lock()
	defer c.mu.Unlock()
	if c.closed {
		return 0, net.ErrClosed
	}
	c.Sent = append(c.Sent, Datagram{To: addr.String(), Data: append([]byte{}, b...)})
	return len(b), nil
}

func (c *UDPConn) Write(b []byte) (int, error) { return 0, fmt.Errorf("vnet: unconnected UDP write") }

func (c *UDPConn) Close() error {
	c.mu.Lock()
	c.closed = true
	c.cond.Broadcast()
	c.mu.Unlock()
	return nil
}

func (c *UDPConn) LocalAddr() net.Addr                { return &UDPAddr{IP: net.IPv4(127, 0, 0, 1), Port: 40000} }
func (c *UDPConn) RemoteAddr() net.Addr               { return nil }
func (c *UDPConn) SetDeadline(t time.Time) error      { return nil }
func (c *UDPConn) SetReadDeadline(t time.Time) error  { return nil }
func (c *UDPConn) SetWriteDeadline(t time.Time) error { return nil }

// Inject delivers a datagram to the socket (lab side).
func (c *UDPConn) Inject(b []byte) {
	c.mu.Lock()
	c.in = append(c.in, append([]byte{}, b...))
	c.cond.Broadcast()
	c.mu.Unlock()
}

// TakeSentTo returns and removes the datagrams written to addr so far (lab side).
func (c *UDPConn) TakeSentTo(addr string) []Datagram {
	c.mu.Lock()
	defer c.mu.Unlock()
	var out, rest []Datagram
	for _, d := range c.Sent {
		if d.To == addr {
			out = append(out, d)
		} else {
			rest = append(rest, d)
		}
	}
	c.Sent = rest
	return out
}

// TakeSent returns and clears the datagrams written so far (lab side).
func (c *UDPConn) TakeSent() []Datagram {
	c.mu.Lock()
	defer c.mu.Unlock()
	s := c.Sent
	c.Sent = nil
	return s
}

//go:build verif

// Package racepass is the data-race half of C20: a separate, FREE-RUNNING -race build (the cooperative
// explorers are blind to races: their hand-offs are happens-before edges). For every public API / RPC
// method m one scenario is run: a full torrent lifecycle (add -> allocate -> download from an in-memory
// seed -> complete -> stop -> start -> verify -> remove) driven by real event loops, while a second
// goroutine calls m in a loop and a third writes resume data periodically. The race detector's verdict
// depends on happens-before, not on timing; the enumerated object is the scenario set (method x lifecycle).
package racepass

import (
	"bufio"
	"bytes"
	"encoding/binary"
	"encoding/hex"
	"fmt"
	"io"
	"net"
	"os"
	"os/exec"
	"path/filepath"
	"regexp"
	"sort"
	"strings"
	"sync"
	"sync/atomic"
	"testing"
	"time"

	"github.com/cenkalti/rain/v2/rainrpc"
	"github.com/cenkalti/rain/v2/torrent"
	"github.com/cenkalti/rain/v2/zzverif/core"
	"github.com/cenkalti/rain/v2/zzverif/lab"
	"github.com/cenkalti/rain/v2/zzverif/refcodec"
	"github.com/cenkalti/rain/v2/zzverif/vnet"
)

type method struct {
	Name string
	Call func(c *ctx)
}

type ctx struct {
	s    *torrent.Session
	t    *torrent.Torrent
	g    *lab.GenTorrent
	g2   *lab.GenTorrent
	rpc  *rainrpc.Client
	n    int64
	dir  string
}

func methods() []method {
	return []method{
		{"Torrent.Stats", func(c *ctx) { c.t.Stats() }},
		{"Torrent.Peers", func(c *ctx) { c.t.Peers() }},
		{"Torrent.Trackers", func(c *ctx) { c.t.Trackers() }},
		{"Torrent.Webseeds", func(c *ctx) { c.t.Webseeds() }},
		{"Torrent.Files", func(c *ctx) { c.t.Files() }},
		{"Torrent.FileStats", func(c *ctx) { c.t.FileStats() }},
		{"Torrent.Magnet", func(c *ctx) { c.t.Magnet() }},
		{"Torrent.Torrent", func(c *ctx) { c.t.Torrent() }},
		{"Torrent.Port", func(c *ctx) { c.t.Port() }},
		{"Torrent.Name+ID+InfoHash+AddedAt+Dir", func(c *ctx) { c.t.Name(); c.t.ID(); c.t.InfoHash(); c.t.AddedAt(); c.t.Dir() }},
		{"Torrent.AddPeer(ip)", func(c *ctx) { c.t.AddPeer("10.0.0.77:6000") }},
		{"Torrent.AddPeer(hostname)", func(c *ctx) { c.t.AddPeer("localhost:6001") }},
		{"Torrent.AddTracker", func(c *ctx) {
			if atomic.AddInt64(&c.n, 1) < 4 {
				c.t.AddTracker("http://10.8.8.8/announce")
			} else {
				time.Sleep(time.Millisecond)
			}
		}},
		{"Torrent.Announce", func(c *ctx) { c.t.Announce() }},
		{"Torrent.Start", func(c *ctx) { c.t.Start() }},
		{"Torrent.Stop+Start", func(c *ctx) {
			if atomic.AddInt64(&c.n, 1)%50 == 25 {
				c.t.Stop()
				c.t.Start()
			} else {
				time.Sleep(time.Millisecond)
			}
		}},
		{"Torrent.Notify*", func(c *ctx) { c.t.NotifyStop(); c.t.NotifyComplete(); c.t.NotifyMetadata(); c.t.NotifyClose() }},
		{"Session.ListTorrents+GetTorrent", func(c *ctx) { c.s.ListTorrents(); c.s.GetTorrent(c.t.ID()) }},
		{"Session.Stats", func(c *ctx) { c.s.Stats() }},
		{"Session.StartAll", func(c *ctx) { c.s.StartAll() }},
		{"Session.AddTorrent+RemoveTorrent(other)", func(c *ctx) {
			t2, err := c.s.AddTorrent(bytes.NewReader(c.g2.MetaInfo), &torrent.AddTorrentOptions{Stopped: atomic.AddInt64(&c.n, 1)%2 == 0})
			if err == nil {
				c.s.RemoveTorrent(t2.ID(), false)
			}
		}},
		{"Session.AddTorrent(explicit id)+RemoveTorrent", func(c *ctx) {
			// caller-chosen ids (as the registry churn uses): two adds with explicit ids overlap in the id reservation
			if _, err := c.s.AddTorrent(bytes.NewReader(c.g2.MetaInfo), &torrent.AddTorrentOptions{ID: "mine", Stopped: true}); err == nil {
				c.s.RemoveTorrent("mine", false)
			}
		}},
		{"Session.CompactDatabase", func(c *ctx) {
			if atomic.AddInt64(&c.n, 1)%40 == 1 {
				out := filepath.Join(c.dir, fmt.Sprintf("compact-%d.db", c.n))
				c.s.CompactDatabase(out)
				os.Remove(out)
			} else {
				time.Sleep(time.Millisecond)
			}
		}},
		{"RPC.GetTorrentStats+Peers+Trackers", func(c *ctx) {
			c.rpc.GetTorrentStats(c.t.ID())
			c.rpc.GetTorrentPeers(c.t.ID())
			c.rpc.GetTorrentTrackers(c.t.ID())
		}},
		{"RPC.GetTorrentFiles+FileStats+Magnet+Torrent", func(c *ctx) {
			c.rpc.GetTorrentFiles(c.t.ID())
			c.rpc.GetTorrentFileStats(c.t.ID())
			c.rpc.GetMagnet(c.t.ID())
			c.rpc.GetTorrent(c.t.ID())
		}},
		{"RPC.ListTorrents+SessionStats", func(c *ctx) { c.rpc.ListTorrents(); c.rpc.GetSessionStats() }},
		{"RPC.AddPeer+AddTracker", func(c *ctx) {
			c.rpc.AddPeer(c.t.ID(), "10.0.0.78:6000")
			if atomic.AddInt64(&c.n, 1) < 4 {
				c.rpc.AddTracker(c.t.ID(), "http://10.8.8.8/announce")
			}
		}},
	}
}

// seeder is a free-running honest seed speaking over an in-memory connection.
func seeder(c net.Conn, g *lab.GenTorrent, id string) {
	defer c.Close()
	var pid [20]byte
	copy(pid[:], id)
	c.Write(refcodec.Handshake(g.InfoHash, pid, refcodec.ReservedBits(true, false, false)))
	in := make([]byte, 68)
	if _, err := io.ReadFull(c, in); err != nil {
		return
	}
	// extension handshake: we serve ut_metadata as id 3
	c.Write(refcodec.Extended(0, refcodec.ExtHandshakePayload(map[string]int{"ut_metadata": 3}, "raceseed", nil, int64(len(g.InfoBytes)), 0)).Encode())
	clientMetaID := byte(1)
	c.Write(refcodec.Bitfield(g.AllBitfield()).Encode())
	c.Write(refcodec.Simple(refcodec.MsgUnchoke).Encode())
	for {
		var l uint32
		if binary.Read(c, binary.BigEndian, &l) != nil {
			return
		}
		if l == 0 {
			continue
		}
		b := make([]byte, l)
		if _, err := io.ReadFull(c, b); err != nil {
			return
		}
		if b[0] == refcodec.MsgExtended && len(b) >= 2 {
			if b[1] == 0 {
				if d, _, err := refcodec.DecodeExtPayload(b[2:]); err == nil {
					if mv, ok := d.Get("m"); ok {
						if md, ok := mv.(*refcodec.Dict); ok {
							if x, ok := md.Int("ut_metadata"); ok {
								clientMetaID = byte(x)
							}
						}
					}
				}
			} else if b[1] == 3 {
				if d, _, err := refcodec.DecodeExtPayload(b[2:]); err == nil {
					if mt, _ := d.Int("msg_type"); mt == 0 {
						pi, _ := d.Int("piece")
						s0 := int(pi) * 16384
						if s0 < len(g.InfoBytes) {
							e0 := min(s0+16384, len(g.InfoBytes))
							c.Write(refcodec.Extended(clientMetaID, refcodec.MetadataPayload(1, uint32(pi), int64(len(g.InfoBytes)), g.InfoBytes[s0:e0])).Encode())
						}
					}
				}
			}
		}
		if b[0] == refcodec.MsgRequest && len(b) >= 13 {
			idx, beg, ln := binary.BigEndian.Uint32(b[1:]), binary.BigEndian.Uint32(b[5:]), binary.BigEndian.Uint32(b[9:])
			off := int(idx)*g.L.PieceLen + int(beg)
			if off+int(ln) <= len(g.Data) {
				c.Write(refcodec.Piece(idx, beg, g.Data[off:off+int(ln)]).Encode())
			}
		}
	}
}

func waitFor(d time.Duration, cond func() bool) bool {
	end := time.Now().Add(d)
	for time.Now().Before(end) {
		if cond() {
			return true
		}
		time.Sleep(2 * time.Millisecond)
	}
	return cond()
}

// lifecycle runs one scenario in this process (child mode).
func lifecycle(m method, rpcPort int, magnet bool) (calls int64, reached string) {
	vnet.Reset()
	dir, _ := os.MkdirTemp("/dev/shm", "race")
	defer os.RemoveAll(dir)
	cfg := torrent.DefaultConfig
	cfg.Database = filepath.Join(dir, "session.db")
	cfg.DataDir = filepath.Join(dir, "data")
	cfg.DHTEnabled = false
	cfg.RPCEnabled = true
	cfg.RPCHost = "127.0.0.1"
	cfg.RPCPort = rpcPort
	cfg.Host = "127.0.0.1"
	cfg.PortBegin, cfg.PortEnd = 43000, 43016
	cfg.MaxOpenFiles = 0
	cfg.DisableOutgoingEncryption = true
	cfg.TrackerStopTimeout = 200 * time.Millisecond
	cfg.ResumeWriteInterval = 50 * time.Millisecond
	cfg.DNSResolveTimeout = time.Second
	cfg.BlocklistURL = ""
	s, err := torrent.NewSession(cfg)
	if err != nil {
		core.HarnessError("NewSession: %v", err)
	}
	l := lab.LayoutMulti(32768, 90000, 70000)
	l.Webseeds = nil
	g := lab.Gen(l)
	g2 := lab.Gen(lab.LayoutSingle(32768, 50000))
	var t *torrent.Torrent
	if magnet {
		t, err = s.AddURI("magnet:?xt=urn:btih:"+hex.EncodeToString(g.InfoHash[:]), &torrent.AddTorrentOptions{Stopped: true})
	} else {
		t, err = s.AddTorrent(bytes.NewReader(g.MetaInfo), &torrent.AddTorrentOptions{Stopped: true})
	}
	if err != nil {
		core.HarnessError("add: %v", err)
	}
	c := &ctx{s: s, t: t, g: g, g2: g2, rpc: rainrpc.NewClient(fmt.Sprintf("http://127.0.0.1:%d", rpcPort)), dir: dir}
	stop := make(chan struct{})
	var wg sync.WaitGroup
	var ncalls int64
	// registry churn: another client adds and removes a second torrent all the time, so that every call also
	// runs against writes to the session's registry (torrent map, port set, resume database)
	l3 := lab.LayoutSingle(32768, 20000)
	l3.Name = "churn"
	g3 := lab.Gen(l3)
	wg.Add(3)
	go func() {
		defer wg.Done()
		for {
			select {
			case <-stop:
				return
			case <-time.After(5 * time.Millisecond):
			}
			if _, err := s.AddTorrent(bytes.NewReader(g3.MetaInfo), &torrent.AddTorrentOptions{ID: "churn", Stopped: true}); err == nil {
				time.Sleep(2 * time.Millisecond)
				s.RemoveTorrent("churn", false)
			}
		}
	}()
	go func() {
		defer wg.Done()
		for {
			select {
			case <-stop:
				return
			default:
			}
			m.Call(c)
			atomic.AddInt64(&ncalls, 1)
			time.Sleep(300 * time.Microsecond) // a caller, not a flood: several API calls spawn a goroutine each
		}
	}()
	go func() {
		defer wg.Done()
		for {
			select {
			case <-stop:
				return
			case <-time.After(20 * time.Millisecond):
				s.VerifUpdateStats()
			}
		}
	}()
	reached = "added"
	t.Start()
	if waitFor(5*time.Second, func() bool { return vnet.W.Listening(t.Port()) }) {
		reached = "listening"
		if lc, err := vnet.W.Connect(t.Port(), &net.TCPAddr{IP: net.IPv4(10, 0, 0, 1), Port: 5001}); err == nil {
			go seeder(lc, g, "-LB0001-raceseeder01")
		}
		if waitFor(10*time.Second, func() bool { return t.Stats().Status == torrent.Seeding }) {
			reached = "seeding"
		}
	}
	t.Stop()
	if waitFor(5*time.Second, func() bool { return t.Stats().Status == torrent.Stopped }) {
		reached += "+stopped"
	}
	t.Start()
	waitFor(3*time.Second, func() bool { st := t.Stats().Status; return st == torrent.Seeding || st == torrent.Downloading })
	t.Verify()
	waitFor(5*time.Second, func() bool { return t.Stats().Status == torrent.Stopped })
	reached += "+verified"
	close(stop)
	wg.Wait()
	s.RemoveTorrent(t.ID(), false)
	s.Close()
	return atomic.LoadInt64(&ncalls), reached
}

var raceRe = regexp.MustCompile(`(?s)WARNING: DATA RACE\n(.*?)\n==================`)

// siteOf names the party of one access stack: "event-loop" when the access happens on the torrent's run
// loop, otherwise the outermost public API entry point on that stack (stable across the many loop-side
// sites one unsynchronised getter collides with), falling back to the innermost rain frame.
func siteOf(block string) string {
	var frames []string
	for _, ln := range strings.Split(block, "\n") {
		ln = strings.TrimSpace(ln)
		if strings.HasPrefix(ln, "github.com/cenkalti/rain/v2/") && !strings.Contains(ln, "zzverif") {
			f := strings.TrimPrefix(ln, "github.com/cenkalti/rain/v2/")
			if j := strings.LastIndex(f, "("); j > 0 && !strings.HasPrefix(f[j:], "(*") {
				f = f[:j]
			}
			frames = append(frames, f)
		}
	}
	for _, f := range frames {
		if f == "torrent.(*torrent).run" || f == "torrent.(*torrent).verifEntry" {
			return "event-loop"
		}
	}
	api := ""
	for _, f := range frames { // innermost first; keep the outermost API-looking frame
		if strings.HasPrefix(f, "torrent.(*Torrent).") || strings.HasPrefix(f, "torrent.(*Session).") {
			if !strings.Contains(f, "Verif") && !strings.Contains(f, ".func") {
				api = f
			}
		}
	}
	if api != "" {
		return api
	}
	if len(frames) > 0 {
		return frames[0]
	}
	return "?"
}

type raceRep struct{ a, b, text string }

var (
	accRe     = regexp.MustCompile(`(?:Read|Write|Previous read|Previous write)[^\n]* by (?:goroutine (\d+)|main goroutine)`)
	createdRe = regexp.MustCompile(`^Goroutine (\d+) \([^)]*\) created at:`)
)

func parseRaces(out string) []raceRep {
	var res []raceRep
	for _, m := range raceRe.FindAllStringSubmatch(out, -1) {
		blk := m[1]
		parts := regexp.MustCompile(`\n\n`).Split(blk, -1)
		// goroutines created by newTorrent are event loops (the access stack itself may be cut off before run())
		loopG := map[string]bool{}
		for _, p := range parts {
			p = strings.TrimSpace(p)
			if cm := createdRe.FindStringSubmatch(p); cm != nil {
				lines := strings.Split(p, "\n")
				if len(lines) > 1 && strings.Contains(lines[1], "/torrent.newTorrent()") {
					loopG[cm[1]] = true
				}
			}
		}
		var acc []string
		for _, p := range parts {
			tp := strings.TrimSpace(p)
			if strings.HasPrefix(tp, "Read at") || strings.HasPrefix(tp, "Write at") || strings.HasPrefix(tp, "Previous") {
				site := siteOf(p)
				if am := accRe.FindStringSubmatch(tp); am != nil && am[1] != "" && loopG[am[1]] {
					site = "event-loop"
				}
				acc = append(acc, site)
			}
		}
		if len(acc) >= 2 {
			x := []string{acc[0], acc[1]}
			sort.Strings(x)
			res = append(res, raceRep{x[0], x[1], blk})
		}
	}
	return res
}

func TestC20Race(t *testing.T) {
	ms := methods()
	if name := os.Getenv("VERIF_RACE_CHILD"); name != "" {
		torrent.DisableLogging()
		for i, m := range ms {
			if m.Name == name {
				n, reached := lifecycle(m, 47000+i+100*btoi(os.Getenv("VERIF_RACE_MAGNET") != ""), os.Getenv("VERIF_RACE_MAGNET") != "")
				fmt.Printf("CHILD-RESULT calls=%d reached=%s\n", n, reached)
				return
			}
		}
		core.HarnessError("unknown method %s", name)
	}
	rep := core.NewReport("C20", "racepass", "other")
	rep.Explanation = "free-running -race build (Go race detector = vector-clock happens-before analysis); one scenario per public API / RPC method: real event loops run a full torrent lifecycle (add, allocate, download from an in-memory seed, complete, stop, start, verify, remove) while a second goroutine calls the method in a loop and a third writes resume data; a report is keyed by the two access sites. The scenario set (method x lifecycle) is enumerated completely; each scenario is one free execution."
	rep.Rule = "scenarios = public API / RPC methods, each called in a loop while one torrent goes through its whole lifecycle (add, start, download from a scripted seed, seed, stop, start, verify), the periodic resume write runs every 20 ms and another client keeps adding and removing a second torrent (registry churn); non-trivial = the probed method was called at least 20 times while the torrent was transferring"
	rep.Assumptions = []string{"the race detector reports races between accesses that actually execute in the scenario; schedules are not enumerated here (that is the threadlab part)", "DNS: only 'localhost' is resolved"}
	var mu sync.Mutex
	sem := make(chan struct{}, 8)
	var wg sync.WaitGroup
	type scen struct {
		m      method
		magnet bool
	}
	var scens []scen
	for _, m := range ms {
		scens = append(scens, scen{m, false}) // every method in both tiers
	}
	for _, m := range ms {
		// the metadata-dependent getters also against a torrent added by magnet link (metadata arrives while they run)
		for _, k := range []string{"Files", "FileStats", "Magnet", "Torrent.Torrent", "AddTracker", "Torrent.Stats", "GetTorrentFiles"} {
			if strings.Contains(m.Name, k) && (core.Thorough() || k == "Files" || k == "Magnet") {
				scens = append(scens, scen{m, true})
				break
			}
		}
	}
	for _, sc := range scens {
		m := sc.m
		magnet := sc.magnet
		wg.Add(1)
		sem <- struct{}{}
		go func(m method) {
			defer func() { <-sem; wg.Done() }()
			// A report whose second stack the detector could not restore ("failed to restore the stack") cannot be
			// attributed to a party; the scenario is run again (up to 4 times) until every report is attributed.
			var s string
			var unattributed []raceRep
			attributed := map[string]raceRep{}
			for attempt := 0; attempt < 4; attempt++ {
				cmd := exec.Command(os.Args[0], "-test.run", "^TestC20Race$", "-test.timeout", "0")
				cmd.Env = append(os.Environ(), "VERIF_RACE_CHILD="+m.Name, "GORACE=halt_on_error=0 history_size=7")
				if magnet {
					cmd.Env = append(cmd.Env, "VERIF_RACE_MAGNET=1")
				}
				var out bytes.Buffer
				cmd.Stdout, cmd.Stderr = &out, &out
				done := make(chan error, 1)
				cmd.Start()
				go func() { done <- cmd.Wait() }()
				select {
				case <-done:
				case <-time.After(180 * time.Second):
					cmd.Process.Kill()
					<-done
					mu.Lock()
					rep.Cap("scenario " + m.Name + " exceeded its wall budget (not a verdict)")
					mu.Unlock()
					return
				}
				s = out.String()
				unattributed = nil
				for _, r := range parseRaces(s) {
					if r.a == "?" || r.b == "?" {
						unattributed = append(unattributed, r)
					} else if _, ok := attributed[r.a+"|"+r.b]; !ok {
						attributed[r.a+"|"+r.b] = r
					}
				}
				if len(unattributed) == 0 {
					break
				}
				mu.Lock()
				rep.Add("scenario_reruns_for_unrestorable_stacks", 1)
				mu.Unlock()
			}
			if magnet {
				m.Name += " [magnet]"
			}
			mu.Lock()
			defer mu.Unlock()
			rep.Eval(1)
			var calls int
			reached := ""
			sc := bufio.NewScanner(strings.NewReader(s))
			sc.Buffer(make([]byte, 1<<20), 1<<26)
			for sc.Scan() {
				if strings.HasPrefix(sc.Text(), "CHILD-RESULT") {
					fmt.Sscanf(sc.Text(), "CHILD-RESULT calls=%d reached=%s", &calls, &reached)
				}
			}
			if reached == "" {
				if strings.Contains(s, "panic:") || strings.Contains(s, "fatal error:") {
					rep.Violate("C20.crash."+m.Name, "process crashed during the concurrent scenario for "+m.Name+":\n"+tailStr(s, 3000), map[string]any{"method": m.Name})
				} else {
					rep.Cap("scenario " + m.Name + " produced no result: " + tailStr(s, 300))
				}
				return
			}
			if calls >= 20 && strings.HasPrefix(reached, "seeding") {
				rep.CountDistinct(m.Name)
			}
			rep.Sample(40, map[string]any{"method": m.Name, "calls_during_lifecycle": calls, "lifecycle_reached": reached})
			// A party named only by an internal frame (its stack was cut off before the API entry point or the
			// loop's run()) against an API party: the same race as "event-loop|<that API>" when this scenario
			// reported that one with full stacks.
			named := func(x string) bool {
				return x == "event-loop" || strings.HasPrefix(x, "torrent.(*Torrent).") || strings.HasPrefix(x, "torrent.(*Session).")
			}
			for k, r := range attributed {
				if named(r.a) && named(r.b) {
					continue
				}
				api := r.a
				if !named(api) {
					api = r.b
				}
				if !named(api) || api == "event-loop" {
					continue
				}
				x := []string{"event-loop", api}
				sort.Strings(x)
				if _, ok := attributed[x[0]+"|"+x[1]]; ok {
					delete(attributed, k)
					rep.Add("reports_with_cut_off_stack_matched_to_a_fully_attributed_race", 1)
				}
			}
			keys := make([]string, 0, len(attributed))
			for k := range attributed {
				keys = append(keys, k)
			}
			sort.Strings(keys)
			for _, k := range keys {
				r := attributed[k]
				rep.Violate("C20.race."+r.a+"|"+r.b, fmt.Sprintf("data race between %s and %s (scenario: %s called concurrently with a transferring torrent)\n%s", r.a, r.b, m.Name, tailStr(r.text, 2500)), map[string]any{"method": m.Name})
			}
			// still unattributed after the re-runs: the same race as an attributed one of this scenario when the
			// identified party matches; otherwise reported under the scenario's name
			for _, r := range unattributed {
				side := r.a
				if side == "?" {
					side = r.b
				}
				same := false
				for _, a := range attributed {
					if a.a == side || a.b == side {
						same = true
					}
				}
				if same {
					rep.Add("reports_with_unrestorable_stack_matched_to_an_attributed_race", 1)
					continue
				}
				rep.Violate("C20.race.unattributed|"+side+"|"+m.Name, fmt.Sprintf("data race between %s and a party whose stack the detector could not restore (scenario: %s)\n%s", side, m.Name, tailStr(r.text, 2500)), map[string]any{"method": m.Name})
			}
		}(m)
	}
	wg.Wait()
	rep.Finish()
}

func btoi(b bool) int {
	if b {
		return 1
	}
	return 0
}

func tailStr(s string, n int) string {
	if len(s) > n {
		return s[len(s)-n:]
	}
	return s
}

#!/usr/bin/env python3
"""Confirm a seeded change and run the property's check against it, in a scratch worktree (never /repo).

usage: seedtest.py <Cxx> <m1|m2> [tier]
  source:  /verif/seeded/<Cxx>-<m>/{patch.diff,*_test.go,README.md}  (or, for a new delivery, /tmp/seeded/<Cxx>/<m>/)
  result:  /verif/seeded/<Cxx>-<m>/{patch.diff,<demo>,README.md,meta.json}
"""
import json, os, re, shutil, subprocess, sys, time, glob

prop, m = sys.argv[1], sys.argv[2]
tier = sys.argv[3] if len(sys.argv) > 3 else "quick"
# optional 4th argument: comma-separated other properties whose checks are run as well when the property's own
# check does not report the change (a change can break a property through a history that lies in another
# property's quantifier)
others = [x for x in (sys.argv[4].split(",") if len(sys.argv) > 4 else []) if x]
src = f"/tmp/seeded/{prop}/{m}"
if not os.path.isdir(src):
    src = f"/verif/seeded/{prop}-{m}"
tag = f"-seed-{prop}-{m}"
wt = f"/tmp/wt/run{tag}"
env = dict(os.environ, GOFLAGS="-mod=mod", GOPROXY="off")
for k in ("GOROOT", "GOTOOLCHAIN", "GOSUMDB"):
    env.pop(k, None)

def sh(cmd, cwd=None, e=env, timeout=3600):
    p = subprocess.run(cmd, shell=True, cwd=cwd, env=e, capture_output=True, text=True, errors="replace", timeout=timeout)
    return p.returncode, p.stdout + p.stderr

meta = {"property": prop, "mutation": m, "ran": [], "confirmed": False}
def note(step, rc, out=""):
    meta["ran"].append({"step": step, "rc": rc, "tail": out[-400:]})

subprocess.run(f"git -C /repo worktree remove --force {wt}", shell=True, capture_output=True)
rc, out = sh(f"git -C /repo worktree add -q --detach {wt} HEAD")
assert rc == 0, out
try:
    patch = f"{src}/patch.diff"
    demos = glob.glob(f"{src}/*_test.go")
    rc, out = sh(f"git apply --check {patch}", cwd=wt); note("git apply --check (current HEAD)", rc, out)
    if rc != 0:
        meta["error"] = "patch does not apply to the current tree"
        raise SystemExit
    # demo destination: by package clause
    dest = None
    if demos:
        pk = re.search(r"^package (\w+)", open(demos[0]).read(), re.M).group(1).replace("_test", "")
        rc, out = sh("go list -f '{{.Name}} {{.Dir}}' ./...", cwd=wt)
        cands = [l.split()[1] for l in out.splitlines() if l.split() and l.split()[0] == pk]
        readme = open(f"{src}/README.md").read() if os.path.exists(f"{src}/README.md") else ""
        for c in cands:
            rel = os.path.relpath(c, wt)
            if rel in readme or len(cands) == 1:
                dest = c
        if dest is None and cands:
            dest = cands[0]
    # without the change: demo passes
    if demos and dest:
        shutil.copy(demos[0], dest)
        tests = re.findall(r"^func (Test\w+)\(", open(demos[0]).read(), re.M)
        pat = "^(" + "|".join(tests) + ")$"
        # a demonstration of a data race only fails under the race detector (the README's commands say so)
        race = "-race " if re.search(r"go test[^\n]*-race", open(f"{src}/README.md").read() if os.path.exists(f"{src}/README.md") else "") else ""
        rc0, out0 = sh(f"go test {race}-vet=off -count=1 -run '{pat}' .", cwd=dest, timeout=900); note("demo without the change", rc0, out0)
    # with the change
    rc, out = sh(f"git apply {patch}", cwd=wt); note("git apply", rc, out)
    rc, out = sh("go build ./...", cwd=wt); note("go build ./...", rc, out)
    build_ok = rc == 0
    if demos and dest:
        rc1, out1 = sh(f"go test {race}-vet=off -count=1 -run '{pat}' .", cwd=dest, timeout=900); note("demo with the change", rc1, out1)
        os.remove(os.path.join(dest, os.path.basename(demos[0])))
    else:
        rc0, rc1 = 0, 1
        meta["note"] = "no demo test file delivered"
    rc, out = sh("go test -vet=off -count=1 -p 4 ./... 2>&1 | grep -a -E '^(--- FAIL|FAIL|ok|panic)' | grep -a -v '^ok'", cwd=wt, timeout=2400)
    fails = sorted(set(re.findall(r"--- FAIL: (\w+)", out)))
    known = {"TestDownloadMagnet", "TestDownloadTorrent", "TestDownloadWebseed", "TestTorrentDir", "TestTorrentFiles"}
    flaky = {"TestHTTPTracker", "TestTTL"}  # fixed port 5000 / 100 ms timing: fail sporadically on the unchanged tree under load
    extra = [f for f in fails if f not in known and f not in flaky]
    note("full suite with the change", 0 if not extra else 1, out)
    meta["suite_extra_failures"] = extra
    meta["confirmed"] = build_ok and rc0 == 0 and rc1 != 0 and not extra
    # the check
    # the check is built from a snapshot of the harness sources taken now
    snap = f"/verif/.build/snap{tag}"
    shutil.rmtree(snap, ignore_errors=True)
    os.makedirs(snap)
    for d in ("engine", "hooks", "hooks-lab"):
        shutil.copytree(f"/verif/{d}", f"{snap}/{d}")
    e2 = dict(os.environ, VERIF_REPO=wt, VERIF_TAG=tag, VERIF_SRC=snap, VERIF_REPLAY_DIR=f"/verif/.build/tmp/replays{tag}")
    t0 = time.time()
    rc, out = sh(f"/verif/vcheck {prop} {tier}", cwd="/verif", e=e2, timeout=7200)
    keys = re.findall(r"^\s+key=(\S+)", out, re.M)
    meta["check"] = {"cmd": f"VERIF_REPO=<scratch worktree with the change> ./vcheck {prop} {tier}", "exit": rc, "violation_keys": keys, "wall_s": round(time.time() - t0)}
    meta["detected"] = rc == 1 and bool(keys)
    note("check against the change", rc, out)
    if not meta["detected"]:
        for op in others:
            t0 = time.time()
            rc2, out2 = sh(f"/verif/vcheck {op} {tier}", cwd="/verif", e=e2, timeout=7200)
            keys2 = re.findall(r"^\s+key=(\S+)", out2, re.M)
            meta.setdefault("other_checks", {})[op] = {"exit": rc2, "violation_keys": keys2, "wall_s": round(time.time() - t0)}
            note(f"check of {op} against the change", rc2, out2)
        meta["detected_by_other_property"] = [op for op, v in meta.get("other_checks", {}).items() if v["exit"] == 1 and v["violation_keys"]]
finally:
    outd = f"/verif/seeded/{prop}-{m}"
    os.makedirs(outd, exist_ok=True)
    for f in glob.glob(f"{src}/*"):
        if os.path.isfile(f) and not f.endswith((".log", ".txt")) and os.path.dirname(f) != outd:
            shutil.copy(f, outd)
    if os.path.exists(f"{src}/README.md"):
        txt = open(f"{src}/README.md").read()
        mm = re.search(r"(?is)(trigger|needs|manifest)[^\n]*\n(.{0,600})", txt)
        meta["needs_to_manifest"] = (mm.group(0)[:700] if mm else txt[:700])
    json.dump(meta, open(f"{outd}/meta.json", "w"), indent=1)
    subprocess.run(f"git -C /repo worktree remove --force {wt}", shell=True, capture_output=True)
    for f in glob.glob(f"/verif/.build/bin/*{tag}.test") + glob.glob(f"/verif/.build/overlay-*{tag}.json") + glob.glob(f"/verif/.build/go{tag}.*"):
        os.remove(f)
    shutil.rmtree(f"/verif/.build/snap{tag}", ignore_errors=True)
    shutil.rmtree(f"/verif/.build/gen/lab{tag}", ignore_errors=True)
    shutil.rmtree(f"/verif/.build/gen/thread{tag}", ignore_errors=True)
    shutil.rmtree(f"/verif/.build/gen/plain{tag}", ignore_errors=True)
    print(json.dumps({k: meta.get(k) for k in ("property", "mutation", "confirmed", "detected", "detected_by_other_property", "check", "suite_extra_failures", "error")}))

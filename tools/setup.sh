#!/bin/bash
# MANIFEST.setup_cmd: builds everything the checks need from files already on disk (offline).
set -euo pipefail
cd /verif
mkdir -p .build/bin .build/gen .build/tmp evidence replays
export GOFLAGS=-mod=mod GOPROXY=off; unset GOSUMDB GOTOOLCHAIN
# 1. locate the toolchain the repo itself uses (go.mod's go line; auto-switch from the module cache)
SRCROOT=$(cd /repo && go env GOROOT)
VER=$(cd /repo && go env GOVERSION)
echo "setup: repo toolchain $VER at $SRCROOT"
# 2. hard-linked GOROOT copy with a deterministic map iterator (DESIGN 2.1)
if [ ! -x .build/goroot/bin/go ] || [ "$(cat .build/goroot/.verif-src 2>/dev/null)" != "$SRCROOT" ]; then
  rm -rf .build/goroot
  cp -al "$SRCROOT" .build/goroot 2>/dev/null || { rm -rf .build/goroot; cp -a "$SRCROOT" .build/goroot; }
  chmod -R u+w .build/goroot
  T=.build/goroot/src/internal/runtime/maps/table.go
  cp "$T" .build/table.go.orig
  rm -f "$T"
  sed -e 's/it\.entryOffset = rand()/it.entryOffset = 0/' -e 's/it\.dirOffset = rand()/it.dirOffset = 0/' .build/table.go.orig > "$T"
  if [ "$(grep -c 'Offset = 0' "$T")" != 2 ]; then echo "setup: map iterator patch did not apply" >&2; exit 2; fi
  # deterministic select: poll ready cases in source order instead of a pseudo-random permutation
  # (any choice among ready cases is legal Go; this makes executions repeatable, DESIGN 2.1)
  S=.build/goroot/src/runtime/select.go
  cp "$S" .build/select.go.orig
  rm -f "$S"
  # VERIF_SELECT=last reverses the poll order (the last ready case in source order wins): the explorer
  # runs chosen scenarios under both orders, which covers the two extreme resolutions of every racing select.
  python3 - "$S" <<'PYEOF'
import sys
dst = sys.argv[1]
s = open('/verif/.build/select.go.orig').read()
a = 'j := cheaprandn(uint32(norder + 1))'
b = '\tpollorder = pollorder[:norder]\n'
assert s.count(a) == 1 and s.count(b) == 1
s = s.replace(a, 'j := uint32(norder)')
s = s.replace(b, b + '\tif verifSelectLast() {\n\t\tfor x, y := 0, norder-1; x < y; x, y = x+1, y-1 {\n\t\t\tpollorder[x], pollorder[y] = pollorder[y], pollorder[x]\n\t\t}\n\t}\n')
s += """
// verif: select poll order is deterministic; VERIF_SELECT=last makes the last ready case win.
var verifSelMode uint32

func verifSelectLast() bool {
	if verifSelMode == 0 {
		if gogetenv("VERIF_SELECT") == "last" {
			verifSelMode = 2
		} else {
			verifSelMode = 1
		}
	}
	return verifSelMode == 2
}
"""
open(dst, 'w').write(s)
PYEOF
  if [ "$(grep -c 'j := uint32(norder)' "$S")" != 1 ]; then echo "setup: select patch did not apply" >&2; exit 2; fi
  echo "$SRCROOT" > .build/goroot/.verif-src
fi
# 2b. patched copy of the pinned bbolt module (crash-point recorder hooks; used through -modfile, /repo/go.mod untouched)
BVER=$(grep -E '^\s*go.etcd.io/bbolt ' /repo/go.mod | awk '{print $2}')
BSRC=$(cd /repo && go env GOMODCACHE)/go.etcd.io/bbolt@$BVER
if [ ! -f .build/bbolt/.verif-ver ] || [ "$(cat .build/bbolt/.verif-ver)" != "$BVER+vsync1" ]; then
  rm -rf .build/bbolt
  cp -r "$BSRC" .build/bbolt
  chmod -R u+w .build/bbolt
  python3 - <<'PYEOF'
import re
def edit(p, old, new):
    s = open(p).read()
    assert s.count(old) == 1, (p, old, s.count(old))
    open(p, 'w').write(s.replace(old, new))
b = '/verif/.build/bbolt/'
edit(b + 'db.go', '\t"sync"\n', '\tsync "go.etcd.io/bbolt/vsync"\n')
edit(b + 'db.go', 'db.ops.writeAt = db.file.WriteAt', 'db.ops.writeAt = verifWrapWriteAt(db, db.file.WriteAt)')
edit(b + 'bolt_linux.go', 'return syscall.Fdatasync(int(db.file.Fd()))', 'err := syscall.Fdatasync(int(db.file.Fd()))\n\tverifEvent(db, "sync", 0, nil)\n\treturn err')
edit(b + 'db.go', 'if err := db.file.Truncate(int64(sz)); err != nil {', 'verifEvent(db, "truncate", int64(sz), nil)\n\t\t\tif err := db.file.Truncate(int64(sz)); err != nil {')
open(b + 'zz_verif_hook.go', 'w').write("""package bbolt

// Verif crash-point recorder (added by /verif/tools/setup.sh to a private copy of the module).

// VerifHook, if set, observes every page write, fdatasync and file growth of every DB: kind is "write", "sync" or "truncate".
var VerifHook func(path string, kind string, off int64, b []byte)

func verifEvent(db *DB, kind string, off int64, b []byte) {
	if VerifHook != nil {
		VerifHook(db.path, kind, off, b)
	}
}

func verifWrapWriteAt(db *DB, f func([]byte, int64) (int, error)) func([]byte, int64) (int, error) {
	return func(b []byte, off int64) (int, error) {
		n, err := f(b, off)
		if err == nil {
			verifEvent(db, "write", off, b)
		}
		return n, err
	}
}
""")
PYEOF
  echo "$BVER+vsync1" > .build/bbolt/.verif-ver
fi
# vsync (scheduler-visible locks) lives inside the bbolt copy so that both rain and bbolt can import it
mkdir -p .build/bbolt/vsync && cp engine/vsync/vsync.go .build/bbolt/vsync/vsync.go
# modfile = the repo's current go.mod + replace (regenerated every time by vcheck as well)
cp /repo/go.mod .build/go.mod && cp /repo/go.sum .build/go.sum && echo 'replace go.etcd.io/bbolt => /verif/.build/bbolt' >> .build/go.mod
. tools/env.sh
go version
# 3. tools
(cd /verif/tools/mkoverlay && go build -o /verif/.build/bin/mkoverlay .)
# 4. warm the build cache for the harness binaries
/verif/vcheck build-all || true
echo "setup: done"

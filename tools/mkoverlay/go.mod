module verif/mkoverlay

go 1.25.0

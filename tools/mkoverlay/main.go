// mkoverlay regenerates, from /repo's *current working tree*, every derived file the checks build
// with, and writes the go -overlay description. Nothing under /repo is written.
//
//	mkoverlay [-variant lab|thread|plain] -o /verif/.build/overlay-<variant>.json
package main

import (
	"bytes"
	"encoding/json"
	"flag"
	"fmt"
	"go/ast"
	"go/format"
	"go/parser"
	"go/printer"
	"go/token"
	"os"
	"path/filepath"
	"strings"
)

// src is where engine/, hooks/ and hooks-<variant>/ are read from (default /verif; -src for a snapshot taken
// when a batch of scratch runs started, so that editing /verif does not disturb them).
var src = "/verif"

const (
	verif  = "/verif"
	modpfx = "github.com/cenkalti/rain/v2/zzverif/"
)

// repo is the tree the overlay is generated from and applied to (default /repo; -repo for scratch copies
// used when a seeded change is tested without touching /repo).
var repo = "/repo"

var gen string

func die(f string, a ...any) { fmt.Fprintf(os.Stderr, "mkoverlay: "+f+"\n", a...); os.Exit(2) }

func main() {
	variant := flag.String("variant", "lab", "lab | thread | plain")
	out := flag.String("o", "", "overlay json path")
	repoFlag := flag.String("repo", "/repo", "repository tree")
	tag := flag.String("tag", "", "suffix for the generated-files directory (parallel runs)")
	srcFlag := flag.String("src", "/verif", "directory holding engine/, hooks/, hooks-<variant>/")
	flag.Parse()
	src = *srcFlag
	repo = *repoFlag
	gen = filepath.Join(verif, ".build", "gen", *variant+*tag)
	os.RemoveAll(gen)
	os.MkdirAll(gen, 0o755)
	ov := map[string]string{}

	// 1. virtual packages: /verif/engine/** -> /repo/zzverif/**
	filepath.Walk(filepath.Join(src, "engine"), func(p string, fi os.FileInfo, err error) error {
		if err != nil || fi.IsDir() {
			return nil
		}
		if strings.HasSuffix(p, ".go") {
			rel, _ := filepath.Rel(filepath.Join(src, "engine"), p)
			ov[filepath.Join(repo, "zzverif", rel)] = p
		}
		return nil
	})
	// 2. in-package hook files: /verif/hooks/<pkgpath>/zz_verif_*.go -> /repo/<pkgpath>/...
	filepath.Walk(filepath.Join(src, "hooks"), func(p string, fi os.FileInfo, err error) error {
		if err != nil || fi.IsDir() {
			return nil
		}
		if strings.HasSuffix(p, ".go") {
			rel, _ := filepath.Rel(filepath.Join(src, "hooks"), p)
			if !strings.HasPrefix(filepath.Base(rel), "zz_verif_") {
				die("hook file %s must be named zz_verif_*.go", p)
			}
			ov[filepath.Join(repo, rel)] = p
		}
		return nil
	})
	// 2b. variant-specific hook files: /verif/hooks-<variant>/<pkgpath>/zz_verif_*.go
	filepath.Walk(filepath.Join(src, "hooks-"+*variant), func(p string, fi os.FileInfo, err error) error {
		if err != nil || fi.IsDir() {
			return nil
		}
		if strings.HasSuffix(p, ".go") {
			rel, _ := filepath.Rel(filepath.Join(src, "hooks-"+*variant), p)
			if !strings.HasPrefix(filepath.Base(rel), "zz_verif_") {
				die("hook file %s must be named zz_verif_*.go", p)
			}
			ov[filepath.Join(repo, rel)] = p
		}
		return nil
	})
	if *variant == "plain" {
		write(*out, ov)
		return
	}
	// 3. derived files
	edits := map[string][]func(string, []byte) []byte{}
	add := func(file string, f func(string, []byte) []byte) { edits[file] = append(edits[file], f) }

	netFiles := []string{"torrent/torrent_start.go", "internal/btconn/dial.go", "internal/tracker/udptracker/transport.go",
		"internal/trackermanager/trackermanager.go", "torrent/session.go"}
	for _, f := range netFiles {
		add(f, importRewrite(`"net"`, `net "`+modpfx+`vnet"`))
	}
	randFiles := []string{"internal/resourcemanager/resourcemanager.go", "internal/tracker/tier.go", "internal/tracker/udptracker/transaction.go",
		"internal/unchoker/unchoker.go", "internal/piecepicker/webseed.go"}
	for _, f := range randFiles {
		if b, err := os.ReadFile(filepath.Join(repo, f)); err == nil && bytes.Contains(b, []byte(`"math/rand/v2"`)) {
			add(f, importRewrite(`"math/rand/v2"`, `rand "`+modpfx+`vrand"`))
		}
	}
	if *variant == "lab" {
		add("torrent/torrent.go", replaceOnce("go t.run()", "go t.verifEntry()"))
		// the buffer a sync.Pool hands out is the runtime's choice; the lab owns it (engine/vpool)
		add("internal/bufferpool/bufferpool.go", importRewrite(`"sync"`, `sync "`+modpfx+`vpool"`))
	}
	if *variant == "thread" {
		for _, f := range []string{"torrent/session.go", "torrent/torrent.go", "internal/piececache/cache.go", "internal/piececache/item.go"} {
			add(f, importRewrite(`"sync"`, `sync "go.etcd.io/bbolt/vsync"`))
		}
	}
	for f, fs := range edits {
		src := filepath.Join(repo, f)
		b, err := os.ReadFile(src)
		if err != nil {
			die("read %s: %v", src, err)
		}
		for _, fn := range fs {
			b = fn(f, b)
		}
		dst := filepath.Join(gen, strings.ReplaceAll(f, "/", "__"))
		if err := os.WriteFile(dst, b, 0o644); err != nil {
			die("%v", err)
		}
		ov[src] = dst
	}
	// 4. generated controlled event loop
	if *variant == "lab" {
		dst := filepath.Join(gen, "zz_verif_step.go")
		genStep(filepath.Join(repo, "torrent/torrent_run.go"), dst)
		ov[filepath.Join(repo, "torrent/zz_verif_step.go")] = dst
	}
	write(*out, ov)
}

func write(out string, ov map[string]string) {
	b, _ := json.MarshalIndent(map[string]any{"Replace": ov}, "", " ")
	if err := os.WriteFile(out, b, 0o644); err != nil {
		die("%v", err)
	}
}

func importRewrite(from, to string) func(string, []byte) []byte {
	return func(file string, b []byte) []byte {
		// only inside the import block: the first occurrence of the quoted path on a line of its own
		lines := strings.Split(string(b), "\n")
		n := 0
		for i, l := range lines {
			if strings.TrimSpace(l) == from {
				lines[i] = strings.Replace(l, from, to, 1)
				n++
			} else if strings.TrimSpace(l) == "import "+from {
				lines[i] = "import " + to
				n++
			}
		}
		if n != 1 {
			die("%s: import %s found %d times (expected 1)", file, from, n)
		}
		return []byte(strings.Join(lines, "\n"))
	}
}

func replaceOnce(from, to string) func(string, []byte) []byte {
	return func(file string, b []byte) []byte {
		if bytes.Count(b, []byte(from)) != 1 {
			die("%s: %q found %d times (expected 1)", file, from, bytes.Count(b, []byte(from)))
		}
		return bytes.Replace(b, []byte(from), []byte(to), 1)
	}
}

// genStep turns torrent.run() into verifEntry (same prelude) + verifStep(i) (one non-blocking
// single-case select per original case, bodies verbatim) + verifChan(i) + verifCaseNames.
func genStep(src, dst string) {
	fset := token.NewFileSet()
	f, err := parser.ParseFile(fset, src, nil, parser.ParseComments)
	if err != nil {
		die("%v", err)
	}
	var run *ast.FuncDecl
	for _, d := range f.Decls {
		if fd, ok := d.(*ast.FuncDecl); ok && fd.Name.Name == "run" && fd.Recv != nil {
			run = fd
		}
	}
	if run == nil {
		die("no run() in %s", src)
	}
	var prelude []ast.Stmt
	var sel *ast.SelectStmt
	for _, st := range run.Body.List {
		if fs, ok := st.(*ast.ForStmt); ok {
			if fs.Init != nil || fs.Cond != nil || fs.Post != nil || len(fs.Body.List) != 1 {
				die("run(): unexpected for statement shape")
			}
			s, ok := fs.Body.List[0].(*ast.SelectStmt)
			if !ok {
				die("run(): for body is not a single select")
			}
			sel = s
			break
		}
		prelude = append(prelude, st)
	}
	if sel == nil {
		die("run(): no for/select found")
	}
	var out bytes.Buffer
	out.WriteString("// Code generated by /verif/tools/mkoverlay from torrent_run.go; DO NOT EDIT.\n\n//go:build verif\n\npackage torrent\n\nimport (\n")
	for _, im := range f.Imports {
		if im.Name != nil {
			out.WriteString("\t" + im.Name.Name + " " + im.Path.Value + "\n")
		} else {
			out.WriteString("\t" + im.Path.Value + "\n")
		}
	}
	out.WriteString(")\n\n")
	// keep imports used
	for _, im := range f.Imports {
		p := strings.Trim(im.Path.Value, `"`)
		base := p[strings.LastIndex(p, "/")+1:]
		if im.Name != nil {
			base = im.Name.Name
		}
		switch base {
		case "time":
			out.WriteString("var _ = time.Now\n")
		case "peersource":
			out.WriteString("var _ = peersource.Manual\n")
		default:
			die("run(): import %s not known to the generator; extend genStep", p)
		}
	}
	var names []string
	var chans []string
	var cases bytes.Buffer
	for i, c := range sel.Body.List {
		cc := c.(*ast.CommClause)
		if cc.Comm == nil {
			die("run(): default case in select")
		}
		var commBuf bytes.Buffer
		printer.Fprint(&commBuf, fset, cc.Comm)
		comm := commBuf.String()
		j := strings.Index(comm, "<-")
		if j < 0 {
			die("run(): case %q is not a receive", comm)
		}
		operand := strings.TrimSpace(comm[j+2:])
		name := strings.TrimPrefix(operand, "t.")
		name = strings.TrimSuffix(name, ".ReceiveC()")
		names = append(names, name)
		chans = append(chans, operand)
		ast.Inspect(cc, func(n ast.Node) bool {
			if r, ok := n.(*ast.ReturnStmt); ok && len(r.Results) == 0 {
				r.Results = []ast.Expr{&ast.Ident{Name: "verifExit"}}
			}
			if _, ok := n.(*ast.FuncLit); ok {
				return false
			}
			return true
		})
		var body bytes.Buffer
		if as, ok := cc.Comm.(*ast.AssignStmt); ok && len(as.Lhs) == 1 {
			// observation point: the harness sees the value a case received before the handler runs
			if id, ok := as.Lhs[0].(*ast.Ident); ok && id.Name != "_" {
				fmt.Fprintf(&body, "verifObserve(t, %d, %s)\n", i, id.Name)
			}
		}
		for _, st := range cc.Body {
			if _, isSend := st.(*ast.SendStmt); isSend {
				// the loop answers a caller: between taking the request and sending the reply other parties
				// may move (the caller may have given up); the lab can hold the handler here
				fmt.Fprintf(&body, "t.verifYield(%d)\n", i)
			}
			printer.Fprint(&body, fset, st)
			body.WriteString("\n")
		}
		fmt.Fprintf(&cases, "case %d:\nselect {\ncase %s:\n%sreturn verifFired\ndefault:\nreturn verifNotReady\n}\n", i, comm, body.String())
	}
	fmt.Fprintf(&out, "var verifCaseNames = %#v\n\n", names)
	out.WriteString("func (t *torrent) verifChan(i int) any {\nswitch i {\n")
	for i, c := range chans {
		fmt.Fprintf(&out, "case %d:\nreturn %s\n", i, c)
	}
	out.WriteString("}\nreturn nil\n}\n\n")
	out.WriteString("func (t *torrent) verifStep(i int) int {\nswitch i {\n")
	out.Write(cases.Bytes())
	out.WriteString("}\npanic(\"verifStep: bad case index\")\n}\n\n")
	out.WriteString("func (t *torrent) verifEntry() {\nif !VerifControlled {\nt.run()\nreturn\n}\n")
	for _, st := range prelude {
		printer.Fprint(&out, fset, st)
		out.WriteString("\n")
	}
	out.WriteString("t.verifLoop()\n}\n")
	b, err := format.Source(out.Bytes())
	if err != nil {
		os.WriteFile(dst, out.Bytes(), 0o644)
		die("generated step does not parse: %v", err)
	}
	os.WriteFile(dst, b, 0o644)
}

#!/bin/bash
# re-run every seeded change in /verif/seeded against its property's quick check (scratch worktrees, /repo untouched)
cd /verif
ls -d seeded/C*-m* | sed 's#seeded/##; s#-# #' | xargs -P ${P:-4} -L 1 sh -c 'python3 tools/seedtest.py $0 $1 2>&1 | tail -1'

#!/usr/bin/env python3
"""Merge the evidence parts written by the harness binaries of one property into evidence/<id>.json."""
import json, os, sys
pid, tier, parts = sys.argv[1], sys.argv[2], sys.argv[3:]
if not parts:
    sys.exit("merge_evidence: no evidence parts for " + pid)
docs = [json.load(open(p)) for p in parts]
if len(docs) == 1:
    out = docs[0]
else:
    cov = {"parts": []}
    for k in ("evaluations", "distinct_nontrivial", "states", "transitions", "traces_validated_against_impl"):
        vals = [d["coverage"].get(k) for d in docs if d["coverage"].get(k) is not None]
        if vals:
            cov[k] = sum(vals)
    cov["rule"] = " || ".join("[%s] %s" % (d["coverage"].get("check", "?"), d["coverage"].get("rule", "")) for d in docs)
    cov["samples"] = [s for d in docs for s in d["coverage"].get("samples", [])[:6]]
    cov["exhaustive"] = all(d["coverage"].get("exhaustive", False) for d in docs)
    expl = [d["coverage"]["explanation"] for d in docs if d["coverage"].get("explanation")]
    if expl:
        cov["explanation"] = " || ".join(expl)
    for d in docs:
        cov["parts"].append(d["coverage"])
    levels = [d["level"] for d in docs]
    level = "model_checking" if "model_checking" in levels else levels[0]
    try:  # the level claimed for the property in MANIFEST.json (parts of several kinds are merged under it)
        for c in json.load(open("/verif/MANIFEST.json"))["checks"]:
            if c["property_id"] == pid:
                level = c["level_claimed"]["category"]
    except Exception:
        pass
    out = {"property_id": pid, "tier": tier, "seed": docs[0]["seed"], "level": level, "coverage": cov,
           "assumptions": sorted({a for d in docs for a in (d.get("assumptions") or [])}),
           "wall_s": sum(d["wall_s"] for d in docs), "violations": sum(d.get("violations", 0) for d in docs)}
if out.get("assumptions") is None:
    out["assumptions"] = []
json.dump(out, open(os.path.join(os.environ.get("VERIF_EVIDENCE_OUT") or "/verif/evidence", "%s.json" % pid), "w"), indent=1)

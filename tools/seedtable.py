#!/usr/bin/env python3
"""Print the catch matrix rows (markdown) for the seeded changes of the given rounds from their meta.json files."""
import json, sys, glob, os, re
rounds = sys.argv[1:] or ["m5", "m6", "m7"]
for d in sorted(glob.glob("/verif/seeded/C*-m*")):
    name = os.path.basename(d)
    if name.split("-")[1] not in rounds:
        continue
    try:
        m = json.load(open(d + "/meta.json"))
    except Exception:
        continue
    summ = ""
    if os.path.exists(d + "/README.md"):
        for ln in open(d + "/README.md"):
            ln = ln.strip().lstrip("#").strip()
            if ln and not re.match(r"^C\d\d\s*/\s*m\d\s*$", ln):
                summ = ln
                break
    summ = re.sub(r"^C\d\d\s*/\s*m\d\s*[-—:]\s*", "", summ)[:150].replace("|", "\\|")
    if not m.get("confirmed"):
        rep = "not confirmed at the current tree (" + (m.get("error") or "extra suite failures %s" % m.get("suite_extra_failures")) + ")"
    elif m.get("detected"):
        rep = ", ".join("`%s`" % k for k in m["check"]["violation_keys"][:2])
    elif m.get("detected_by_other_property"):
        o = m["detected_by_other_property"][0]
        rep = "by the check of %s: " % o + ", ".join("`%s`" % k for k in m["other_checks"][o]["violation_keys"][:2])
    else:
        rep = "**not reported by the quick tier** (exit %s)" % (m.get("check") or {}).get("exit")
    print("| %s | %s | %s |" % (name, summ, rep))

#!/bin/bash
# run every registered check (tier $1, default quick) and summarise; evidence lands in /verif/evidence
cd /verif
tier=${1:-quick}
props=$(python3 -c "import json;print(' '.join(c['property_id'] for c in json.load(open('MANIFEST.json'))['checks']))")
for p in ${2:-$props}; do
  s=$(date +%s)
  log=${VERIF_FROZEN:-.build}/tmp/run-$p.log; mkdir -p $(dirname $log)
  ./vcheck $p $tier > $log 2>&1; rc=$?
  echo "$p rc=$rc $(( $(date +%s)-s ))s $(grep -a -c '^VIOLATION' $log) violations; $(grep -a -c '^KNOWN-FINDING' $log) known"
done

#!/bin/bash
# run every registered check (tier $1, default quick) and summarise; evidence lands in /verif/evidence
cd /verif
tier=${1:-quick}
props=$(python3 -c "import json;print(' '.join(c['property_id'] for c in json.load(open('MANIFEST.json'))['checks']))")
for p in ${2:-$props}; do
  s=$(date +%s)
  ./vcheck $p $tier > .build/tmp/run-$p.log 2>&1; rc=$?
  echo "$p rc=$rc $(( $(date +%s)-s ))s $(grep -a -c '^VIOLATION' .build/tmp/run-$p.log) violations; $(grep -a -c '^KNOWN-FINDING' .build/tmp/run-$p.log) known"
done

#!/bin/bash
# development aid: run (a subset of the parts of) a property's quick check against one seeded change in a scratch worktree,
# with the harness sources as they are now in /verif. usage: seedquick.sh <Cxx> <mN> ["parts"] [property-to-run]
id=$1; m=$2; parts=${3:-}; prop=${4:-$id}
src=/verif/seeded/$id-$m; [ -d /tmp/seeded/$id/$m ] && src=/tmp/seeded/$id/$m
wt=/tmp/wt/q-$id-$m; tag=-q-$id-$m
git -C /repo worktree remove --force $wt 2>/dev/null
git -C /repo worktree add -q --detach $wt HEAD || exit 2
git -C $wt apply $src/patch.diff || { echo "patch does not apply"; git -C /repo worktree remove --force $wt; exit 2; }
cd /verif
VERIF_REPO=$wt VERIF_TAG=$tag VERIF_PARTS="$parts" VERIF_REPLAY_DIR=/verif/.build/tmp/replays$tag ./vcheck $prop quick 2>&1 | grep -a -E "^\s+key=|quick:|VIOLATION|vcheck:|harness|HARNESS" | cut -c1-300 | sort | uniq -c | sort -rn | head -${LINES_MAX:-14}
rc=${PIPESTATUS[0]}
git -C /repo worktree remove --force $wt
rm -f /verif/.build/bin/*$tag.test /verif/.build/overlay-*$tag.json /verif/.build/go$tag.*; rm -rf /verif/.build/gen/*$tag /verif/.build/tmp/replays$tag
echo "exit=$rc"

# sourced by vcheck / setup: toolchain environment for every build (offline, patched GOROOT)
export VERIF=/verif
export VBUILD=/verif/.build
export GOFLAGS=-mod=mod GOPROXY=off GOSUMDB=off GOTOOLCHAIN=local GONOSUMDB='*' GONOSUMCHECK=1 GOFLAGS=-mod=mod
export VGOROOT=$VBUILD/goroot
if [ -x "$VGOROOT/bin/go" ]; then
  export GOROOT=$VGOROOT
  export PATH=$VGOROOT/bin:$PATH
fi
export GOCACHE=${GOCACHE:-/root/.cache/go-build}

#!/usr/bin/env python3
"""Single source of truth for /verif/MANIFEST.json (run after editing; validates against the schema when jsonschema is available)."""
import json, sys

MC = "stateless explicit-state model checking of the implementation (explorer-owned event-loop select inside a synctest bubble, deviation-bounded DFS, deterministic replay asserted)"
ENUM = "bounded-exhaustive enumeration (model checking of a sequential component: every input / operation sequence in the stated bounds, against an independent reference model)"

# id -> (category, text, note, technique, engine, design_ref)
CHECKS = {
 "C01": ("model_checking", "every execution with <= the stated number of deviations from the honest eager schedule of a two-peer download on the real event loop: adversarial blocks, reorderings, held/failing writes, stop/start; write-equals-truth, claim-implies-data, completion-implies-identical-files and ban oracles in every state",
         "SHA-1 collisions outside the alphabet; handlers atomic (C20); corruption modelled as one flipped byte", MC, "looplab", "3/C01"),
 "C19": ("model_checking", "every encoding of the private flag x {.torrent, magnet} x 5 stimulus orders (peer advertising ut_pex, PEX message with a dialable address, port message, injected DHT result, clock advances) on the real event loop with PEX on and DHT configured on; frames, dial log, Stats().Addresses, DHT announcer/request set, Magnet(), private peer-id / version / user agent observed; public encodings must not be over-blocked",
         "the DHT node is not started (configured on through an in-package hook; results injected on the torrent's DHT channel); odd encodings may be read either way but consistently", MC, "looplab", "3/C19"),
 "C20": ("model_checking", "lock-ups: every schedule with <= 2 preemptions at the lock acquisitions (session locks and bbolt's locks, made scheduler-visible) of 2-3 concurrent API calls with a running torrent loop inside a synctest bubble, lock-up = no thread resumable and nothing pending; data races: a separate free-running -race build, one scenario per public API / RPC method (method x full torrent lifecycle, .torrent and magnet), reports keyed by the two parties",
         "scheduling points are lock acquisitions of the harness threads (handlers of the loop are atomic); the race detector judges only accesses that execute in the enumerated scenarios; RWMutex modelled with Go's writer preference", "preemption-bounded thread-schedule exploration of the implementation (CHESS-style, controlled scheduler) + happens-before race analysis over an enumerated scenario set", "threadlab", "3/C20"),
 "C02": ("exploration", "every file-length vector / padding placement / piece length / block size / read range within the stated unit-scale bounds, plus 16 KiB-scaled images and created directory trees, executed on the real geometry code and compared with a flat byte-array model; exhaustive within the bounds",
         "value-independence of geometry (one byte pattern); sizes beyond the bounds represented by their unit-scale coincidence class", ENUM, "enum", "3/C02"),
 "C03": ("model_checking", "seeding / partially seeding torrent on the real event loop: every history of <= depth leecher operations over 14 request shapes, interested, cancel, unchoke tick, for read-cache block sizes {16K,24K,128K}, cache capacities, fast / non-fast leecher; every piece frame decoded by an independent codec and compared with the ground truth, allowed-fast-only service while choked",
         "request field values from the shape lattice (the full 32-bit product is the component-level part); one leecher", MC, "looplab", "3/C03"),
 "C04": ("model_checking", "explicit enumeration, on the real torrent event loop with an explorer-owned select, of every command/mutation sequence up to the stated depth from three initial states, plus every execution with one race deviation; status truthfulness, command effect, crash/hang and convergence oracles in every state",
         "one torrent, one honest seed, one tracker; handlers atomic (C20); silent corruption while stopped is unknowable to the client until the next verification and is excluded from the truthfulness oracle", MC, "looplab", "3/C04"),
 "C05": ("fault_enumeration", "download histories with resume ticks / stop+start / verify at enumerated positions are recorded once (data writes, bbolt page writes, fdatasyncs, file growth); for every prefix of the merged log, every torn variant of the in-flight data write, every subset of unsynced db page writes and the deletion subsets of files at restart, both images are rebuilt and a fresh session is opened, started and drained on the real event loop; no claimed piece may lack its verified content",
         "data files durable at WriteAt return (O_SYNC asserted on the real storage); torn writes inside one db page and reordering across fdatasync not modelled; last 4 unsynced db writes permuted", "crash-point enumeration (exhaustive over the recorded write history) with recovery on the real implementation", "crashlab", "3/C05"),
 "C06": ("exploration", "every byte string of length <= 5 (6) over {d,e,i,l,0,1,2,:,-,x} and a grammar lattice of info dictionaries (piece length, pieces string, single/multi-file lengths incl. negative and overflowing ones, padding, path shapes, wrong types, duplicate/unsorted keys, nesting to 10^4 (10^6), declared string lengths) through all 9 parsing entry points (.torrent, info with flag pairs, resume v1-v3, peer metadata) in RLIMIT_AS-confined subprocesses; well-formedness of accepted infos, allocation bound, termination of piece construction, session limits",
         "work bound 256 x input + 1 MiB of heap (stack not counted, only process death); looplab Start of hostile torrents not run (effect inferred from piece construction)", ENUM, "enum", "3/C06"),
 "C07": ("exploration", "every name / path-component string up to the stated length over a hostile byte alphabet plus a tricky list, in single- and multi-file torrents, both data-dir modes and utf-8 overrides: pure confinement oracle on every accepted Info, real allocator over the real file storage with a sentinel tree diff, tar extraction of hostile archives, and RemoveTorrent",
         "Linux path semantics; strings longer than the bound only through the tricky list; pre-existing symlinks inside the data dir not modelled", ENUM, "enum", "3/C07"),
 "C11": ("exploration", "every message kind over a boundary lattice of field values, sequences of up to 3-4 messages, written by the real PeerWriter and compared byte for byte with an independent reference encoder, then read back by the real PeerReader under every 1-cut / 2-cut fragmentation of the cut lattice and byte-at-a-time; upload counter and handshake layout included",
         "field values and cut positions outside the stated lattices are not enumerated; transport never errors", ENUM, "enum", "3/C11"),
 "C12": ("exploration", "two real MSE endpoints over a chunk-controlled in-memory duplex with scripted crypto/rand: padA/padB over all 0..511, padC/padD and payload sizes on boundary sets, every offer/selection combination incl. illegal ones from an independent reference endpoint, every single split position of every flight; policy matrix of btconn Accept/Dial incl. the plaintext redial",
         "keys, DH secrets and pad bytes from small fixed sets; >2 independent splits only as fixed chunk sizes; Dial over loopback TCP with uncontrolled fragmentation", ENUM, "enum", "3/C12"),
 "C13": ("model_checking", "magnet torrent fed by a lying and an honest peer: every history of <= depth metadata operations (right/garbage/wrong-size/unrequested/duplicate/out-of-range blocks, total_size lies, reject, request, second handshake) for metadata of 1..3 blocks, announced sizes {true,+1,-1,0,max,max+1}, 1-2 parallel downloads; adopted metadata must hash to the link, oversize never fetched, honest peer eventually adopted",
         "two peers; SHA-1 collisions outside the alphabet", MC, "looplab", "3/C13"),
 "C14": ("model_checking", "every sequence of <= 3 (thorough: dedup BFS to depth 5) registry operations (adds incl. failing ones, removes, start/stop, AddTracker, CompactDatabase + load, close + reopen) on real sessions with a 3-port range, conservation laws after every operation; resume Spec field lattice through bbolt and JSON",
         "payloads fixed (two torrents, one magnet); concurrent callers: thread sets of size 2-3 with <= 2 preemptions (threadlab part)", "explicit-state exploration of operation histories on the real Session with state-key dedup + preemption-bounded thread-schedule exploration", "threadlab", "3/C14"),
 "C15": ("model_checking", "byte lattice of announce fields through the real HTTP and UDP tracker clients against independent BEP 3 / BEP 15 decoders; every event/answer sequence up to the bound on the real PeriodicalAnnouncer and StopAnnouncer under virtual time (started first, completed once, interval discipline); a whole torrent run start->download->complete->stop->start on the real event loop with scripted HTTP and UDP trackers, all single deviations, comparing announce identity with the peer handshake and the stopped-only-after-accept rule",
         "tracker scripts of at most two phases; one torrent; interval discipline judged on the virtual clock", "exhaustive enumeration of operation sequences on the real actors under virtual time + stateless model checking of the event loop", "actorlab", "3/C15"),
 "C16": ("model_checking", "tier index machine explored by BFS to a fixpoint (all answer vectors, up to 2-4 concurrent calls interleaved at every point); every announce answer sequence up to the bound on the real PeriodicalAnnouncer under virtual time; the real UDP transport with 2-3 concurrent requests under every cancel/reply/expiry order; HTTP and UDP reply byte lattices",
         "announcer back-off jitter bounded not pinned; at most 3 requests per UDP destination; no DNS", "explicit-state BFS to fixpoint + exhaustive operation-sequence enumeration on the real actors under virtual time (synctest)", "actorlab", "3/C16"),
 "C17": ("model_checking", "ResourceManager: BFS with state merging over every request/cancel/notify/release/stats/close order of 2-3 clients under synctest quiescence (no caller may stay blocked); piece cache, semaphore, address list, peer-writer upload queue and piece-downloader pipeline: every operation sequence up to the stated depth against counting models",
         "one stimulus at a time at the manager; session level (looplab): every history of <= depth connection/dial operations for MaxPeerAccept/MaxPeerDial/MaxRequestsOut in {1,2}: caps on the client's counters and on the sockets it has not closed, failed handshakes closed; global rate limits only at component level", "explicit-state BFS / exhaustive operation sequences on the real components under virtual time", "actorlab", "3/C17"),
 "C18": ("model_checking", "interval tree vs linear scan for every list of <=4(5) intervals over two endpoint lattices and every query point; Blocklist for every list of <=3 lines of a 49-line universe and every Reload sequence; AddrList for every push/pop/reset sequence up to depth 6(7) against a reference bounded priority set; resolver on blocked literals",
         "peerpriority.Calculate taken as given; eviction rule modelled as implemented; session level (looplab): forbidden addresses (blocked, own, port 0, connected/handshaking IP, banned) never appear in the dial log, blocked/banned incoming connections get no handshake reply", ENUM, "enum", "3/C18"),
 "C08": ("model_checking", "torrent in each state {metadata unknown, allocating, verifying, downloading, seeding} x every sequence of <= depth attacker messages over 42 hostile but well-framed messages, under both extreme resolutions of racing selects; crash/hang oracles in every state and completion of the honest peer's exchange afterwards",
         "byte-level framing attacks are the reader-level part; one attacker and one honest peer", MC, "looplab", "3/C08"),
 "C09": ("model_checking", "explicit-state BFS with state dedup over the real piece picker driven within the torrent's call contract (connect, have, bitfield, allowed-fast, choke, unchoke, snub, disconnect, pick, block completion, write ok, hash failure, web-seed pick/progress/steal/error) for 1-3 peers, 3-4 pieces, 0-2 web seeds, rarest/sequential, end-game limit 1-2; shadow-matrix oracles after every operation; to a fixpoint where the space closes, else to a stated state cap",
         "configurations that hit their state cap are breadth-first complete only to that cap (listed in the evidence); web-seed HTTP loop modelled from urldownloader.Run", "explicit-state BFS to fixpoint on the real component (state reload through an in-package dump/load hook)", "actorlab", "3/C09"),
 "C10": ("model_checking", "every layout/mode configuration run under the eager fair schedule and every single deviation of it on the real event loop; completion with byte-identical files is required in each",
         "bounded liveness under the default continuation; other parties' misbehaviour limited to the stated deviation alphabet", MC, "looplab", "3/C10"),
}
ENGINES = [
 {"name": "enum", "path": "engine/geom, engine/paths, ... (E4 packages)", "serves_properties": [], "kind_free_text": "bounded-exhaustive enumeration of inputs / operation sequences against a reference model, on the real code"},
 {"name": "actorlab", "path": "engine/trk16, engine/limits, engine/picker, ... (E2 packages)", "serves_properties": [], "kind_free_text": "one real actor (announcer, UDP transport, tier, resource manager, picker) with scripted, gated environment under virtual time; BFS to fixpoint or exhaustive operation sequences"},
 {"name": "crashlab", "path": "engine/crash (+ patched bbolt copy via -modfile)", "serves_properties": [], "kind_free_text": "crash-point enumeration: recorded write/sync history -> all prefixes x torn writes x unsynced subsets -> recovery executions in looplab"},
 {"name": "threadlab", "path": "engine/thread + engine/vsync (copied into the private bbolt module copy) + engine/racepass", "serves_properties": [], "kind_free_text": "CHESS-style controlled scheduler: harness threads park at every Lock/RLock of the session's and bbolt's locks, explorer picks who runs, preemption-bounded DFS; plus the free-running -race pass"},
 {"name": "looplab", "path": "engine/lab + engine/core + engine/vnet + engine/vrand + hooks-lab", "serves_properties": [], "kind_free_text": "explicit-state exploration of the real torrent event loop inside a synctest bubble: explorer-owned select, in-memory network, recording storage, scripted peers/trackers; deviation-bounded DFS over worker subprocesses"},
]
NOT_BUILT = "check not built yet in this session (planned, see DESIGN.md section 3); not a statement that model checking cannot apply"

def main():
    checks = []
    for pid in sorted(CHECKS):
        cat, text, note, tech, eng, ref = CHECKS[pid]
        checks.append({"property_id": pid, "quick_cmd": "./vcheck %s quick" % pid, "thorough_cmd": "./vcheck %s thorough" % pid,
                       "evidence_file": "/verif/evidence/%s.json" % pid, "replay_cmd_template": "./vcheck replay {path}", "engine": eng,
                       "level_claimed": {"category": cat, "text": text, "design_ref": ref}, "level_note": note, "technique": tech})
        for e in ENGINES:
            if e["name"] == eng and pid not in e["serves_properties"]:
                e["serves_properties"].append(pid)
    m = {"version": 1, "setup_cmd": "bash /verif/tools/setup.sh",
         "hooks": {"guard": "verif", "enable": "go test -c -tags verif -overlay /verif/.build/overlay-<variant>.json (overlay regenerated from /repo's working tree by /verif/tools/mkoverlay on every check; no file in /repo carries hooks)",
                   "baseline_off_cmd": "cd /repo && GOFLAGS=-mod=mod go test -json -vet=off -count=1 -timeout 25m ./...", "source_commits": [], "add_only": True},
         "engines": ENGINES, "checks": checks,
         "not_applicable": [{"property_id": "C%02d" % i, "reason": NOT_BUILT} for i in range(1, 21) if "C%02d" % i not in CHECKS],
         "notes": "see DESIGN.md; known-findings.jsonl lists repaired (fixed:) and recorded (known) genuine defects"}
    json.dump(m, open("/verif/MANIFEST.json", "w"), indent=1)
    try:
        import jsonschema
        jsonschema.validate(m, json.load(open("/root/.vp/MANIFEST.schema.json")))
        print("manifest valid,", len(checks), "checks")
    except ImportError:
        print("manifest written (jsonschema not available in this python)")

main()

//go:build verif

package httptracker

import "net/http"

// VerifSetRoundTripper replaces the network transport of the tracker's http.Client (the client itself,
// its timeout and every line of Announce stay the real ones), so that C16 can serve scripted replies
// from memory and count the bytes read from the reply body.
func (t *HTTPTracker) VerifSetRoundTripper(rt http.RoundTripper) { t.http.Transport = rt }

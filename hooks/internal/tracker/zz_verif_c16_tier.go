//go:build verif

package tracker

// VerifIndex returns the tier's stored (unwrapped) index: the explicit state of the C16 tier model check.
func (t *Tier) VerifIndex() int32 { return t.index.Load() }

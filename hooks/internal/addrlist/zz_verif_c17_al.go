//go:build verif

package addrlist

import (
	"time"

	"github.com/cenkalti/rain/v2/internal/peersource"
)

// VerifC17Entry is one stored address.
type VerifC17Entry struct {
	Addr      string
	Source    peersource.Source
	Timestamp time.Time
}

// VerifC17Snapshot returns the stored addresses (time index, nil holes skipped), the size of the
// priority index, the length of the time index including holes, and the per-source counters.
func (d *AddrList) VerifC17Snapshot() (entries []VerifC17Entry, byPriority int, byTimeSlots int, counts map[peersource.Source]int) {
	for _, p := range d.peerByTime {
		if p != nil {
			entries = append(entries, VerifC17Entry{Addr: p.addr.String(), Source: p.source, Timestamp: p.timestamp})
		}
	}
	counts = map[peersource.Source]int{}
	for k, v := range d.countBySource {
		counts[k] = v
	}
	return entries, d.peerByPriority.Len(), len(d.peerByTime), counts
}

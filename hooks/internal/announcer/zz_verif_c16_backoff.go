//go:build verif

package announcer

import (
	"time"

	"github.com/cenkalti/backoff/v7"
)

// VerifPinBackoffJitter replaces the random jitter of the announcer's exponential back-off by a fixed
// quantile q in [0,1] of the same distribution (interval * (0.5 + q)), so that an explorer owns the
// draw. Same initial interval, multiplier and cap as NewPeriodicalAnnouncer configures. Call before Run.
func (a *PeriodicalAnnouncer) VerifPinBackoffJitter(q float64) {
	f := 0.5 + q
	a.backoff = &backoff.ExponentialBackOff{
		InitialInterval:     time.Duration(float64(5*time.Second) * f),
		RandomizationFactor: 0,
		Multiplier:          2,
		MaxInterval:         time.Duration(float64(30*time.Minute) * f),
	}
}

//go:build verif

package announcer

import "github.com/cenkalti/backoff/v7"

// VerifC15NoJitter removes the random factor of the error-retry back-off (the base intervals stay as
// they are) so that a run's announce timestamps are a function of the explorer's choices alone.
// Must be called before Run.
func (a *PeriodicalAnnouncer) VerifC15NoJitter() {
	if b, ok := a.backoff.(*backoff.ExponentialBackOff); ok {
		b.RandomizationFactor = 0
	}
}

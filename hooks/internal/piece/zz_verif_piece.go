//go:build verif

package piece

// VerifCalculateBlocks exposes calculateBlocks with an explicit block size so that the block logic can be
// enumerated exhaustively at unit scale (CalculateBlocks is the same function at 16 KiB).
func (p *Piece) VerifCalculateBlocks(blockSize uint32) []Block { return p.calculateBlocks(blockSize) }

//go:build verif

package piecedownloader

import "sort"

// VerifC17State returns copies of the bookkeeping sets (sorted) and the remaining list (in order).
func (d *PieceDownloader) VerifC17State() (pending, done, remaining []uint32) {
	for b := range d.pending {
		pending = append(pending, b)
	}
	for b := range d.done {
		done = append(done, b)
	}
	sort.Slice(pending, func(i, j int) bool { return pending[i] < pending[j] })
	sort.Slice(done, func(i, j int) bool { return done[i] < done[j] })
	remaining = append(remaining, d.remaining...)
	return
}

//go:build verif

package urldownloader

import "github.com/cenkalti/rain/v2/internal/piece"

// VerifJob mirrors downloadJob for harnesses outside the package.
type VerifJob struct {
	Filename   string
	RangeBegin int64
	Length     int64
	Padding    bool
}

func VerifCreateJobs(pieces []piece.Piece, begin, end uint32) []VerifJob {
	js := createJobs(pieces, begin, end)
	out := make([]VerifJob, len(js))
	for i, j := range js {
		out[i] = VerifJob{j.Filename, j.RangeBegin, j.Length, j.Padding}
	}
	return out
}

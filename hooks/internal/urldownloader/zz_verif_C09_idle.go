//go:build verif

package urldownloader

// C09 hook: a URLDownloader whose Run goroutine is modelled by the harness. The picker only touches
// Begin, End (UpdateEnd), ReadCurrent() and Close(); Close() waits for doneC, which Run closes on exit.
// VerifNewIdle returns a downloader in the state "Run has been started with piece index `current` in
// progress" but with no goroutine behind it: doneC is already closed so that Close() returns at once
// (in the real system Run exits as soon as closeC is closed, so Close() also returns).
func VerifNewIdle(source string, begin, end, current uint32) *URLDownloader {
	d := New(source, begin, end, nil)
	d.current = current
	close(d.doneC)
	return d
}

// VerifAdvance is the `d.incrCurrent()` step of Run's completePiece (executed by the downloader
// goroutine after the result of the previous piece has been handed to the torrent loop).
func (d *URLDownloader) VerifAdvance() uint32 { return d.incrCurrent() }

// VerifClosed reports whether Close() has been called.
func (d *URLDownloader) VerifClosed() bool {
	select {
	case <-d.closeC:
		return true
	default:
		return false
	}
}

// VerifReset re-initialises an unclosed idle downloader (saves two channel allocations per state reload).
func (d *URLDownloader) VerifReset(begin, end, current uint32) {
	d.Begin, d.End, d.current = begin, end, current
}

//go:build verif

package resourcemanager

import "sort"

// VerifC17Queued is one queued (not yet granted, not yet cancelled) request as the manager sees it.
type VerifC17Queued struct {
	Key string
	N   int64
}

// VerifC17Snapshot reads the manager's private counters. Only meaningful while the manager goroutine
// is durably blocked in its main select (the C17 harness calls it right after synctest.Wait()).
// Queue entries are returned sorted (key, n) so that map/slice order does not leak into state keys.
func (m *ResourceManager[T]) VerifC17Snapshot() (limit, available int64, objects int, queue []VerifC17Queued) {
	for k, rs := range m.requests {
		for _, r := range rs {
			queue = append(queue, VerifC17Queued{Key: k, N: r.n})
		}
	}
	sort.Slice(queue, func(i, j int) bool {
		if queue[i].Key != queue[j].Key {
			return queue[i].Key < queue[j].Key
		}
		return queue[i].N < queue[j].N
	})
	return m.limit, m.available, m.objects, queue
}

// VerifC17QueuedData returns the data values of the queued requests (identifies WHICH requests are queued).
func (m *ResourceManager[T]) VerifC17QueuedData() []T {
	var out []T
	for _, rs := range m.requests {
		for _, r := range rs {
			out = append(out, r.data)
		}
	}
	return out
}

// VerifC17RequestPaused is Request with one extra scheduling point: `between` runs after the request
// has been handed to the manager and before the caller starts waiting for the answer. The statements
// are the statements of Request, verbatim; a goroutine descheduled between Request's two selects
// behaves exactly like this. The C17 harness uses it to make the schedule "manager evaluates
// handleRequest's select before the caller reaches its inner select" deterministic.
func (m *ResourceManager[T]) VerifC17RequestPaused(key string, data T, n int64, notifyC chan T, cancelC chan struct{}, between func()) (acquired bool) {
	if n < 0 {
		return
	}
	r := request[T]{
		key:     key,
		data:    data,
		n:       n,
		notifyC: notifyC,
		cancelC: cancelC,
		doneC:   make(chan bool),
	}
	select {
	case m.requestC <- r:
		between()
		select {
		case acquired = <-r.doneC:
		case <-m.closeC:
		}
	case <-m.closeC:
	}
	return
}

//go:build verif

package resourcemanager

import "sort"

// VerifC17Queued is one queued (not yet granted, not yet cancelled) request as the manager sees it.
type VerifC17Queued struct {
	Key string
	N   int64
}

// VerifC17Snapshot reads the manager's private counters. Only meaningful while the manager goroutine
// is durably blocked in its main select (the C17 harness calls it right after synctest.Wait()).
// Queue entries are returned sorted (key, n) so that map/slice order does not leak into state keys.
func (m *ResourceManager[T]) VerifC17Snapshot() (limit, available int64, objects int, queue []VerifC17Queued) {
	for k, rs := range m.requests {
		for _, r := range rs {
			queue = append(queue, VerifC17Queued{Key: k, N: r.n})
		}
	}
	sort.Slice(queue, func(i, j int) bool {
		if queue[i].Key != queue[j].Key {
			return queue[i].Key < queue[j].Key
		}
		return queue[i].N < queue[j].N
	})
	return m.limit, m.available, m.objects, queue
}

// VerifC17QueuedData returns the data values of the queued requests (identifies WHICH requests are queued).
func (m *ResourceManager[T]) VerifC17QueuedData() []T {
	var out []T
	for _, rs := range m.requests {
		for _, r := range rs {
			out = append(out, r.data)
		}
	}
	return out
}

// VerifC17HoldManager parks the manager goroutine inside its stats case (it is blocked sending the
// answer to a Stats caller that is slow to receive) and returns the function that lets it continue.
// While the manager is held, callers of the real Request/Release park on the manager's channels; when it
// continues it is the running goroutine and handles them before they run again. Returns nil after Close.
func (m *ResourceManager[T]) VerifC17HoldManager() (resume func()) {
	ch := make(chan Stats)
	select {
	case m.statsC <- ch:
		return func() { <-ch }
	case <-m.closeC:
		return nil
	}
}

// VerifC17PeekPick evaluates randomRequest() the way the run loop did before it blocked. Only used in
// configurations with at most one queued request per key (rand.IntN(1) == 0), where it equals the
// request the blocked manager is currently offering / listening to.
func (m *ResourceManager[T]) VerifC17PeekPick() (key string, n int64, ok bool) {
	r, i := m.randomRequest()
	if i < 0 {
		return "", 0, false
	}
	return r.key, r.n, true
}

// VerifC17KeyOrder returns the pending keys in the order `range m.requests` yields them.
func (m *ResourceManager[T]) VerifC17KeyOrder() []string {
	var out []string
	for k := range m.requests {
		out = append(out, k)
	}
	return out
}

//go:build verif

package piececache

// VerifC17Entry is one entry of the cache's item map.
type VerifC17Entry struct {
	Key    string
	Len    int
	Loaded bool
	InLRU  bool
}

// VerifC17Snapshot returns size, maxSize, the item map and the LRU list length under the cache lock.
// Items whose loader is still running are reported with Loaded=false (their own lock is not taken).
func (c *Cache) VerifC17Snapshot() (size, maxSize int64, items []VerifC17Entry, lru int, lruBytes int64) {
	c.m.Lock()
	defer c.m.Unlock()
	inLRU := map[*item]bool{}
	for _, i := range c.accessList {
		inLRU[i] = true
		lruBytes += int64(len(i.value))
	}
	for k, i := range c.items {
		e := VerifC17Entry{Key: k, InLRU: inLRU[i]}
		if inLRU[i] {
			e.Loaded = true
			e.Len = len(i.value)
		}
		items = append(items, e)
	}
	return c.size, c.maxSize, items, len(c.accessList), lruBytes
}

// VerifC17Handle is the result of the first half of Get (the item looked up / created under the cache lock).
type VerifC17Handle struct{ i *item }

// VerifC17GetItem and VerifC17GetValue are the two halves of Get (`i := c.getItem(key); return c.getValue(i, loader)`).
// Calling other operations between them reproduces, on one goroutine, the interleavings of concurrent
// Get/expiry/eviction at lock-release granularity (the cache lock is not held between the halves).
func (c *Cache) VerifC17GetItem(key string) VerifC17Handle { return VerifC17Handle{c.getItem(key)} }

func (c *Cache) VerifC17GetValue(h VerifC17Handle, loader Loader) ([]byte, error) {
	return c.getValue(h.i, loader)
}

// VerifC17Linked reports whether the handle's item is consistently linked: either it is not in the LRU
// list and says so (index == -1, or never inserted: no timer), or accessList[index] is the item itself.
// An item with an ARMED timer whose index points elsewhere is removed from the wrong position (or out of
// range) when its timer fires; ok is false exactly in that case.
func (c *Cache) VerifC17Linked(h VerifC17Handle) (ok bool, index int, lruLen int, hasTimer bool) {
	c.m.Lock()
	defer c.m.Unlock()
	i := h.i
	hasTimer = i.timer != nil
	if !hasTimer || i.index == -1 {
		return true, i.index, len(c.accessList), hasTimer
	}
	ok = i.index >= 0 && i.index < len(c.accessList) && c.accessList[i.index] == i
	if !ok {
		// Dangerous only if the timer is really armed. Stop() reports that; stopping it is harmless here because
		// an armed timer on an unlinked item ends the explored sequence anyway, and an unarmed one is unchanged.
		ok = !i.timer.Stop()
	}
	return ok, i.index, len(c.accessList), hasTimer
}

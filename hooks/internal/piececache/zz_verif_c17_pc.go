//go:build verif

package piececache

// VerifC17Entry is one entry of the cache's item map.
type VerifC17Entry struct {
	Key    string
	Len    int
	Loaded bool
	InLRU  bool
}

// VerifC17Snapshot returns size, maxSize, the item map and the LRU list length under the cache lock.
// Items whose loader is still running are reported with Loaded=false (their own lock is not taken).
func (c *Cache) VerifC17Snapshot() (size, maxSize int64, items []VerifC17Entry, lru int, lruBytes int64) {
	c.m.Lock()
	defer c.m.Unlock()
	inLRU := map[*item]bool{}
	for _, i := range c.accessList {
		inLRU[i] = true
		lruBytes += int64(len(i.value))
	}
	for k, i := range c.items {
		e := VerifC17Entry{Key: k, InLRU: inLRU[i]}
		if inLRU[i] {
			e.Loaded = true
			e.Len = len(i.value)
		}
		items = append(items, e)
	}
	return c.size, c.maxSize, items, len(c.accessList), lruBytes
}

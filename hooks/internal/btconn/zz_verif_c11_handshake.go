//go:build verif

package btconn

import "io"

// C11 accessors: the three handshake functions used by Dial and Accept (add-only, no behaviour change).

// VerifWriteHandshake exposes writeHandshake.
func VerifWriteHandshake(w io.Writer, ih [20]byte, id [20]byte, extensions [8]byte) error {
	return writeHandshake(w, ih, id, extensions)
}

// VerifReadHandshake1 exposes readHandshake1 (pstr, reserved bytes, info hash).
func VerifReadHandshake1(r io.Reader) (extensions [8]byte, ih [20]byte, err error) {
	return readHandshake1(r)
}

// VerifReadHandshake2 exposes readHandshake2 (peer id).
func VerifReadHandshake2(r io.Reader) (id [20]byte, err error) { return readHandshake2(r) }

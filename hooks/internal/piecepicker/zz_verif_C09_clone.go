//go:build verif

package piecepicker

import (
	"reflect"
	"unsafe"

	"github.com/cenkalti/rain/v2/internal/peer"
	"github.com/cenkalti/rain/v2/internal/webseedsource"
)

// C09 hook: full dump / reload of the picker's private mutable state, so that an explicit-state
// search can store a state as a value and re-create the live object from it. Peers are identified
// by their index in the `peers` slice handed in by the caller, web-seed sources by their index in
// p.webseedSources. Slice orders (SliceSet.Items, piecesByAvailability, piecesByStalled) are kept
// exactly: a reloaded picker is structurally identical to the dumped one.

const (
	VerifMaxPieces = 6
	VerifMaxPeers  = 4
)

// VerifSet is a SliceSet[peer.Peer] as peer ids in Items order. Id -2 = pointer unknown to the caller.
type VerifSet struct {
	N  int8
	ID [VerifMaxPeers]int8
}

func (s *VerifSet) Has(id int8) bool {
	for i := int8(0); i < s.N; i++ {
		if s.ID[i] == id {
			return true
		}
	}
	return false
}

// VerifPiece is the mutable part of myPiece.
type VerifPiece struct {
	Having, Requested, Snubbed, Choked VerifSet
	Webseed                            int8 // index into webseedSources, -1 = nil, -2 = unknown pointer
}

// VerifDump is the complete mutable state of a PiecePicker (comparable value, no pointers).
type VerifDump struct {
	NP        int8
	Pieces    [VerifMaxPieces]VerifPiece
	ByAvail   [VerifMaxPieces]int8 // piece indexes in piecesByAvailability order
	ByStalled [VerifMaxPieces]int8 // piece indexes in piecesByStalled order
	Available uint32
	Endgame   bool
	Bad       int8 // pointers that could not be mapped, or set sizes beyond VerifMaxPeers (must be 0)
	// mutable scalar fields this hook does not know by name (added to PiecePicker / myPiece after it was written):
	// captured generically so that the state value stays complete; fields of other kinds count as Bad
	Extra      [verifMaxExtra]uint64
	PieceExtra [VerifMaxPieces][verifMaxExtra]uint64
}

const verifMaxExtra = 4

type verifExtraField struct {
	off  uintptr
	size uintptr
}

var verifExtraTop, verifExtraPiece []verifExtraField
var verifExtraBad int8

func verifScanExtras(t reflect.Type, known map[string]bool) (out []verifExtraField) {
	for i := 0; i < t.NumField(); i++ {
		f := t.Field(i)
		if known[f.Name] {
			continue
		}
		switch f.Type.Kind() {
		case reflect.Bool, reflect.Int, reflect.Int8, reflect.Int16, reflect.Int32, reflect.Int64,
			reflect.Uint, reflect.Uint8, reflect.Uint16, reflect.Uint32, reflect.Uint64, reflect.Uintptr:
			if len(out) < verifMaxExtra {
				out = append(out, verifExtraField{f.Offset, f.Type.Size()})
				continue
			}
		}
		verifExtraBad++ // a field this hook can neither name nor copy: the search must not go on with partial states
	}
	return out
}

func init() {
	verifExtraTop = verifScanExtras(reflect.TypeOf(PiecePicker{}), map[string]bool{"webseedSources": true, "pieces": true, "piecesByAvailability": true,
		"piecesByStalled": true, "maxDuplicateDownload": true, "maxWebseedPieces": true, "available": true, "endgame": true, "sequential": true})
	verifExtraPiece = verifScanExtras(reflect.TypeOf(myPiece{}), map[string]bool{"Piece": true, "Having": true, "Requested": true, "Snubbed": true,
		"Choked": true, "RequestedWebseed": true, "FileHead": true, "FileTail": true})
}

func verifReadExtra(base unsafe.Pointer, fs []verifExtraField, out *[verifMaxExtra]uint64) {
	for k, f := range fs {
		q := unsafe.Add(base, f.off)
		switch f.size {
		case 1:
			out[k] = uint64(*(*uint8)(q))
		case 2:
			out[k] = uint64(*(*uint16)(q))
		case 4:
			out[k] = uint64(*(*uint32)(q))
		default:
			out[k] = *(*uint64)(q)
		}
	}
}

func verifWriteExtra(base unsafe.Pointer, fs []verifExtraField, in *[verifMaxExtra]uint64) {
	for k, f := range fs {
		q := unsafe.Add(base, f.off)
		switch f.size {
		case 1:
			*(*uint8)(q) = uint8(in[k])
		case 2:
			*(*uint16)(q) = uint16(in[k])
		case 4:
			*(*uint32)(q) = uint32(in[k])
		default:
			*(*uint64)(q) = in[k]
		}
	}
}

func verifDumpSet(items []*peer.Peer, peers []*peer.Peer, out *VerifSet, bad *int8) {
	*out = VerifSet{}
	for _, pe := range items {
		if int(out.N) >= VerifMaxPeers {
			*bad++
			return
		}
		id := int8(-2)
		for k, q := range peers {
			if q == pe {
				id = int8(k)
				break
			}
		}
		if id == -2 {
			*bad++
		}
		out.ID[out.N] = id
		out.N++
	}
}

// VerifDump writes the private state into d.
func (p *PiecePicker) VerifDump(peers []*peer.Peer, d *VerifDump) {
	*d = VerifDump{}
	if len(p.pieces) > VerifMaxPieces {
		panic("VerifDump: too many pieces")
	}
	d.NP = int8(len(p.pieces))
	for i := range p.pieces {
		mp := &p.pieces[i]
		dp := &d.Pieces[i]
		verifDumpSet(mp.Having.Items, peers, &dp.Having, &d.Bad)
		verifDumpSet(mp.Requested.Items, peers, &dp.Requested, &d.Bad)
		verifDumpSet(mp.Snubbed.Items, peers, &dp.Snubbed, &d.Bad)
		verifDumpSet(mp.Choked.Items, peers, &dp.Choked, &d.Bad)
		dp.Webseed = -1
		if mp.RequestedWebseed != nil {
			dp.Webseed = -2
			for k, s := range p.webseedSources {
				if s == mp.RequestedWebseed {
					dp.Webseed = int8(k)
				}
			}
			if dp.Webseed == -2 {
				d.Bad++
			}
		}
	}
	for j, mp := range p.piecesByAvailability {
		d.ByAvail[j] = int8(mp.Index)
	}
	for j, mp := range p.piecesByStalled {
		d.ByStalled[j] = int8(mp.Index)
	}
	d.Available = p.available
	d.Endgame = p.endgame
	if len(verifExtraTop) > 0 {
		verifReadExtra(unsafe.Pointer(p), verifExtraTop, &d.Extra)
	}
	if len(verifExtraPiece) > 0 {
		for i := range p.pieces {
			verifReadExtra(unsafe.Pointer(&p.pieces[i]), verifExtraPiece, &d.PieceExtra[i])
		}
	}
}

func verifLoadSet(in *VerifSet, peers []*peer.Peer, items *[]*peer.Peer) {
	*items = (*items)[:0]
	for i := int8(0); i < in.N; i++ {
		*items = append(*items, peers[in.ID[i]])
	}
}

// VerifLoad overwrites the private mutable state of p with d (p must have been built by New over the
// same number of pieces and the same source list; constants set by New are kept).
func (p *PiecePicker) VerifLoad(d *VerifDump, peers []*peer.Peer) {
	if int(d.NP) != len(p.pieces) || d.Bad != 0 {
		panic("VerifLoad: dump does not fit")
	}
	for i := range p.pieces {
		mp := &p.pieces[i]
		dp := &d.Pieces[i]
		verifLoadSet(&dp.Having, peers, &mp.Having.Items)
		verifLoadSet(&dp.Requested, peers, &mp.Requested.Items)
		verifLoadSet(&dp.Snubbed, peers, &mp.Snubbed.Items)
		verifLoadSet(&dp.Choked, peers, &mp.Choked.Items)
		if dp.Webseed >= 0 {
			mp.RequestedWebseed = p.webseedSources[dp.Webseed]
		} else {
			mp.RequestedWebseed = nil
		}
	}
	for j := range p.piecesByAvailability {
		p.piecesByAvailability[j] = &p.pieces[d.ByAvail[j]]
	}
	for j := range p.piecesByStalled {
		p.piecesByStalled[j] = &p.pieces[d.ByStalled[j]]
	}
	p.available = d.Available
	p.endgame = d.Endgame
	if len(verifExtraTop) > 0 {
		verifWriteExtra(unsafe.Pointer(p), verifExtraTop, &d.Extra)
	}
	if len(verifExtraPiece) > 0 {
		for i := range p.pieces {
			verifWriteExtra(unsafe.Pointer(&p.pieces[i]), verifExtraPiece, &d.PieceExtra[i])
		}
	}
}

// VerifConst returns the constants fixed by New.
func (p *PiecePicker) VerifConst() (maxDup, maxWebseedPieces int, sequential bool, sources []*webseedsource.WebseedSource) {
	return p.maxDuplicateDownload, p.maxWebseedPieces, p.sequential, p.webseedSources
}

// VerifEdges returns the FileHead/FileTail marks computed by New (sequential mode only).
func (p *PiecePicker) VerifEdges() (head, tail []bool) {
	for i := range p.pieces {
		head = append(head, p.pieces[i].FileHead)
		tail = append(tail, p.pieces[i].FileTail)
	}
	return
}

// VerifSetMaxWebseedPieces overrides the per-request web-seed range length that New derives from the
// torrent size (len(pieces)/20, at least 1). A 3..4-piece torrent always gets 1, which makes every range a
// single piece and the steal paths unreachable; setting it to k reproduces, at small scale, the range
// geometry of a torrent with 20*k pieces.
func (p *PiecePicker) VerifSetMaxWebseedPieces(k int) { p.maxWebseedPieces = k }

// VerifUncopyableFields is the number of struct fields of the picker that this hook can neither name nor copy
// (non-scalar fields added after it was written). The explicit-state search refuses to run on partial states.
func VerifUncopyableFields() int { return int(verifExtraBad) }

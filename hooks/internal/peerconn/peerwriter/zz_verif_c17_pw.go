//go:build verif

package peerwriter

import "github.com/cenkalti/rain/v2/internal/peerprotocol"

// VerifC17Queue reads the run loop's queue. Only meaningful while the Run goroutine is durably blocked
// in its select. counter is currentQueuedRequests; pieces are the queued Piece requests in queue order;
// others is the number of queued non-piece messages.
func (p *PeerWriter) VerifC17Queue() (counter int, max int, pieces []peerprotocol.RequestMessage, others int) {
	for e := p.writeQueue.Front(); e != nil; e = e.Next() {
		if pi, ok := e.Value.(Piece); ok {
			pieces = append(pieces, pi.RequestMessage)
		} else {
			others++
		}
	}
	return p.currentQueuedRequests, p.maxQueuedRequests, pieces, others
}

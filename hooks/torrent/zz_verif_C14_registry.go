//go:build verif

package torrent

import (
	"net/http"
	"net/http/httptest"
	"sort"

	"go.etcd.io/bbolt"
)

// Add-only accessors for the C14 check (session registry / resume data). Nothing here changes behaviour.

// VerifC14FreePorts returns a sorted copy of the session's set of ports that are not owned by a torrent.
func (s *Session) VerifC14FreePorts() []int {
	s.mPorts.RLock()
	defer s.mPorts.RUnlock()
	out := make([]int, 0, len(s.availablePorts))
	for p := range s.availablePorts {
		out = append(out, p)
	}
	sort.Ints(out)
	return out
}

// VerifC14BucketIDs lists the names of the per-torrent buckets under the "torrents" bucket, read
// through the session's own database handle. Non-bucket keys are reported with a "!key:" prefix.
func (s *Session) VerifC14BucketIDs() ([]string, error) {
	var ids []string
	err := s.db.View(func(tx *bbolt.Tx) error {
		b := tx.Bucket(torrentsBucket)
		if b == nil {
			return nil
		}
		return b.ForEach(func(k, v []byte) error {
			if v != nil {
				ids = append(ids, "!key:"+string(k))
			} else {
				ids = append(ids, string(k))
			}
			return nil
		})
	})
	sort.Strings(ids)
	return ids, err
}

// VerifC14UpdateStats runs the periodic resume-data writer once.
func (s *Session) VerifC14UpdateStats() { s.updateStats() }

// VerifC14InvalidIDs returns the ids that failed to load at session start.
func (s *Session) VerifC14InvalidIDs() []string {
	return append([]string(nil), s.invalidTorrentIDs...)
}

// VerifC14AddCounters increments the torrent's transfer counters (what peers' traffic would do).
func (t *Torrent) VerifC14AddCounters(downloaded, uploaded, wasted, seededForNs int64) {
	t.torrent.bytesDownloaded.Inc(downloaded)
	t.torrent.bytesUploaded.Inc(uploaded)
	t.torrent.bytesWasted.Inc(wasted)
	t.torrent.seededFor.Inc(seededForNs)
}

// VerifC14Options returns (StopAfterDownload, StopAfterMetadata, Sequential). The fields are owned by the
// torrent loop; callers synchronise with the loop (e.g. a Stats() round trip) before calling.
func (t *Torrent) VerifC14Options() (stopAfterDownload, stopAfterMetadata, sequential bool) {
	return t.torrent.stopAfterDownload, t.torrent.stopAfterMetadata, t.torrent.sequential
}

// VerifC14HasBitfield reports whether the torrent currently has a piece bitfield.
func (t *Torrent) VerifC14HasBitfield() bool {
	t.torrent.mBitfield.RLock()
	defer t.torrent.mBitfield.RUnlock()
	return t.torrent.bitfield != nil
}

// VerifC14MoveIn runs the handler that receives a torrent moved from another session (the target side of
// Torrent.Move) on the given request, without an RPC server. Returns the HTTP status and body.
func (s *Session) VerifC14MoveIn(req *http.Request) (int, string) {
	h := &rpcHandler{session: s}
	rec := httptest.NewRecorder()
	h.handleMoveTorrent(rec, req)
	return rec.Code, rec.Body.String()
}

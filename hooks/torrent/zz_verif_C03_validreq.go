//go:build verif

package torrent

// VerifValidPieceRequest exposes validPieceRequest (bounds check of a peer's request message) so that
// it can be enumerated over a 32-bit boundary lattice (C03).
func VerifValidPieceRequest(begin, length, pieceLength uint32) bool {
	return validPieceRequest(begin, length, pieceLength)
}

//go:build verif

package torrent

import (
	"io"

	"github.com/cenkalti/rain/v2/internal/metainfo"
)

// C06 (untrusted metainfo) accessors. Add-only: they call the unexported session parsing code unchanged.

// VerifC06ParseInfo is Session.parseInfo: the call the session makes for the info dictionary stored in
// resume data (spec.Version 1..3, session_load.go) and for the info dictionary assembled from peers'
// ut_metadata pieces (version = boltdbresumer.LatestVersion, torrent_metadataextension.go). parseInfo
// reads nothing of the session but its config.
func VerifC06ParseInfo(cfg Config, b []byte, version int) (*metainfo.Info, error) {
	return (&Session{config: cfg}).parseInfo(b, version)
}

// VerifC06ParseMetaInfo is Session.parseMetaInfo (what AddTorrent / addURL run on the .torrent stream,
// without the io.LimitReader that addTorrentStopped puts in front; that one is exercised through the
// real Session.AddTorrent).
func VerifC06ParseMetaInfo(cfg Config, r io.Reader) (*metainfo.MetaInfo, error) {
	return (&Session{config: cfg}).parseMetaInfo(r)
}

// VerifC06Info returns the info the session holds for a torrent (nil for a magnet without metadata).
// Only meaningful for a stopped torrent (the field is owned by the torrent's loop).
func (t *Torrent) VerifC06Info() *metainfo.Info { return t.torrent.info }

//go:build verif

package torrent

import (
	"io"
	"io/fs"

	"github.com/cenkalti/rain/v2/internal/storage"
)

// C07 (path confinement) accessors. Add-only: they call the unexported session code unchanged.

// VerifC07DataDir is the directory the session roots the storage of torrent `id` at
// (newFileStorageProvider + getDataDir, exactly as Session.add / handleMoveTorrent compute it).
func VerifC07DataDir(cfg *Config, id string) string {
	return newFileStorageProvider(cfg).getDataDir(id)
}

// VerifC07GetStorage returns the storage the session hands to torrent `id`.
func VerifC07GetStorage(cfg *Config, id string) (storage.Storage, error) {
	return newFileStorageProvider(cfg).GetStorage(id)
}

// VerifC07ReadData is readData: the tar extraction of the "data" part of a move-torrent request.
func VerifC07ReadData(r io.Reader, dir string, perm fs.FileMode) error {
	return readData(r, dir, perm)
}

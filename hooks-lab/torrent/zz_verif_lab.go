//go:build verif

package torrent

// Lab hooks (overlay-only, build tag verif): the controlled event loop and read-only accessors.
// The generated zz_verif_step.go (from torrent_run.go) supplies verifStep/verifChan/verifEntry.

import (
	"fmt"
	"net"
	"reflect"
	"runtime"
	"strings"
	"sync"
	"unsafe"

	"github.com/cenkalti/rain/v2/internal/piecewriter"
	"github.com/cenkalti/rain/v2/internal/tracker"
)

const (
	verifNotReady = 0
	verifFired    = 1
	verifExit     = 2
	verifYielded  = 3 // the handler is held in front of a reply send (VerifYieldReplies)
)

// VerifYieldReplies: handlers that answer a caller (Stats, Trackers, Peers, Webseeds, NotifyStop, Port) stop in
// front of the reply send and report verifYielded; VerifResume lets them go on.
var VerifYieldReplies bool

// VerifControlled switches every torrent loop created afterwards to the explorer-controlled loop.
var VerifControlled bool

type VerifReply struct {
	Code  int    // 0 not ready, 1 fired, 2 loop exited
	Panic string // non-empty: the handler panicked (value + top frames)
}

type verifCtl struct {
	req    chan int
	rep    chan VerifReply
	resume chan struct{}
}

func (t *torrent) verifYield(idx int) {
	if !VerifYieldReplies {
		return
	}
	verifMu.Lock()
	ctl := verifCtls[t]
	verifMu.Unlock()
	if ctl == nil {
		return
	}
	ctl.rep <- VerifReply{Code: verifYielded}
	<-ctl.resume
}

// VerifResume lets a handler that reported verifYielded continue.
func (t *Torrent) VerifResume() { t.verifCtl().resume <- struct{}{} }

var (
	verifMu   sync.Mutex
	verifCtls = map[*torrent]*verifCtl{}
)

// VerifResetLoops forgets loop registrations of a previous execution.
func VerifResetLoops() {
	verifMu.Lock()
	verifCtls = map[*torrent]*verifCtl{}
	verifEvents = map[*torrent][]VerifEvent{}
	verifMu.Unlock()
}

// VerifEvent is something the loop received that an oracle needs attributed to its source without
// reading the client's own bookkeeping (e.g. the ban list): the generated step calls verifObserve
// with the received value before the handler runs.
type VerifEvent struct {
	Kind   string // "hashfail"
	Source string // peer IP, or web seed URL
	Piece  uint32
}

var verifEvents = map[*torrent][]VerifEvent{}

func verifObserve(t *torrent, idx int, v any) {
	pw, ok := v.(*piecewriter.PieceWriter)
	if !ok || pw == nil || pw.HashOK {
		return
	}
	src := ""
	switch x := pw.Source.(type) {
	case interface{ IP() string }:
		src = x.IP()
	default:
		src = fmt.Sprintf("%T", x)
	}
	verifMu.Lock()
	verifEvents[t] = append(verifEvents[t], VerifEvent{Kind: "hashfail", Source: src, Piece: pw.Piece.Index})
	verifMu.Unlock()
}

// VerifEvents returns the observations recorded for this torrent's loop.
func (t *Torrent) VerifEvents() []VerifEvent {
	verifMu.Lock()
	defer verifMu.Unlock()
	return append([]VerifEvent{}, verifEvents[t.torrent]...)
}

func (t *torrent) verifLoop() {
	ctl := &verifCtl{req: make(chan int), rep: make(chan VerifReply, 1), resume: make(chan struct{})}
	verifMu.Lock()
	verifCtls[t] = ctl
	verifMu.Unlock()
	for idx := range ctl.req {
		r := t.verifStepSafe(idx)
		ctl.rep <- r
		if r.Code == verifExit || r.Panic != "" {
			return
		}
	}
}

func (t *torrent) verifStepSafe(idx int) (r VerifReply) {
	defer func() {
		if p := recover(); p != nil {
			buf := make([]byte, 16384)
			n := runtime.Stack(buf, false)
			r = VerifReply{Code: verifFired, Panic: fmt.Sprintf("%v\n%s", p, verifFrames(string(buf[:n])))}
		}
	}()
	return VerifReply{Code: t.verifStep(idx)}
}

func verifFrames(st string) string {
	var out []string
	lines := strings.Split(st, "\n")
	for i := 0; i+1 < len(lines); i++ {
		ln := lines[i]
		if strings.HasPrefix(ln, "github.com/cenkalti/rain/v2/") && !strings.Contains(ln, "verif") && !strings.Contains(ln, "session_healthcheck") {
			fn := ln
			if k := strings.Index(fn, "("); k > 0 {
				fn = fn[:k]
			}
			fn = strings.TrimPrefix(fn, "github.com/cenkalti/rain/v2/")
			loc := strings.TrimSpace(lines[i+1])
			if k := strings.Index(loc, " +0x"); k > 0 {
				loc = loc[:k]
			}
			loc = strings.TrimPrefix(loc, "/repo/")
			out = append(out, fn+" "+loc)
			if len(out) >= 6 {
				break
			}
		}
	}
	return strings.Join(out, " <- ")
}

// VerifCaseNames are the select cases of torrent.run in source order.
func VerifCaseNames() []string { return verifCaseNames }

func (t *Torrent) verifCtl() *verifCtl {
	verifMu.Lock()
	defer verifMu.Unlock()
	return verifCtls[t.torrent]
}

// VerifLoopReady reports whether the controlled loop goroutine has registered.
func (t *Torrent) VerifLoopReady() bool { return t.verifCtl() != nil }

// VerifPost asks the loop to try case idx. The caller must then wait for quiescence and call VerifCollect.
func (t *Torrent) VerifPost(idx int) { t.verifCtl().req <- idx }

// VerifCollect fetches the reply of the last VerifPost; ok=false means the handler has not returned (hang).
func (t *Torrent) VerifCollect() (VerifReply, bool) {
	select {
	case r := <-t.verifCtl().rep:
		return r, true
	default:
		return VerifReply{}, false
	}
}

// ---- channel peek: "would a receive on this channel succeed now" without consuming.
// Field layout of runtime.hchan for go1.25 (self-tested by the lab at start-up).

type verifWaitq struct{ first, last unsafe.Pointer }
type verifHchan struct {
	qcount, dataqsiz uint
	buf              unsafe.Pointer
	elemsize         uint16
	closed           uint32
	timer, elemtype  unsafe.Pointer
	sendx, recvx     uint
	recvq, sendq     verifWaitq
}

// VerifPeek classifies channel ch: 0 not ready, 1 ready (blocked sender / buffered item / closed), 2 timer channel (cannot be peeked).
func VerifPeek(ch any) int {
	if ch == nil {
		return 0
	}
	v := reflect.ValueOf(ch)
	if v.Kind() != reflect.Chan || v.IsNil() {
		return 0
	}
	h := (*verifHchan)(v.UnsafePointer())
	if h.timer != nil {
		return 2
	}
	if h.sendq.first != nil || h.qcount > 0 || h.closed != 0 {
		return 1
	}
	return 0
}

// VerifReady peeks at the channel of select case i.
func (t *Torrent) VerifReady(i int) int { return VerifPeek(t.torrent.verifChan(i)) }

// ---- read-only state accessors (only called at quiescence, when the loop goroutine is parked)

type VerifState struct {
	Status                string
	HasInfo               bool
	HasPieces             bool
	HasBitfield           bool
	Bitfield              []byte
	NumPieces             uint32
	Completed             bool
	CompleteClosed        bool
	MetadataClosed        bool
	ErrCNil               bool
	LastError             string
	Peers                 int
	IncomingPeers         int
	OutgoingPeers         int
	IncomingHandshakers   int
	OutgoingHandshakers   int
	PieceDownloaders      int
	PieceDownloadersSnub  int
	PieceDownloadersChoke int
	InfoDownloaders       int
	Announcers            int
	HasStopAnnouncer      bool
	HasAllocator          bool
	HasVerifier           bool
	HasAcceptor           bool
	HasPicker             bool
	FilesOpen             int
	DoVerify              bool
	WebseedActive         int
	ConnectedIPs          []string
	BannedIPs             []string
	AddrListLen           int
	PieceDone             []bool
	PieceWriting          []bool
	Port                  int
	Name                  string
	PeerID                [20]byte
}

func verifClosed(c chan struct{}) bool {
	if c == nil {
		return false
	}
	select {
	case <-c:
		return true
	default:
		return false
	}
}

func (t *Torrent) VerifState() VerifState {
	x := t.torrent
	s := VerifState{
		Status: x.status().String(), HasInfo: x.info != nil, HasPieces: x.pieces != nil, HasBitfield: x.bitfield != nil,
		Completed: x.completed, CompleteClosed: verifClosed(x.completeC), MetadataClosed: verifClosed(x.completeMetadataC),
		ErrCNil: x.errC == nil, Peers: len(x.peers), IncomingPeers: len(x.incomingPeers), OutgoingPeers: len(x.outgoingPeers),
		IncomingHandshakers: len(x.incomingHandshakers), OutgoingHandshakers: len(x.outgoingHandshakers),
		PieceDownloaders: len(x.pieceDownloaders), PieceDownloadersSnub: len(x.pieceDownloadersSnubbed), PieceDownloadersChoke: len(x.pieceDownloadersChoked),
		InfoDownloaders: len(x.infoDownloaders), Announcers: len(x.announcers), HasStopAnnouncer: x.stoppedEventAnnouncer != nil,
		HasAllocator: x.allocator != nil, HasVerifier: x.verifier != nil, HasAcceptor: x.acceptor != nil, HasPicker: x.piecePicker != nil,
		FilesOpen: len(x.files), DoVerify: x.doVerify, WebseedActive: x.webseedActiveDownloads, AddrListLen: x.addrList.Len(),
		Port: x.port, Name: x.name, PeerID: x.peerID,
	}
	if x.lastError != nil {
		s.LastError = x.lastError.Error()
	}
	if x.info != nil {
		s.NumPieces = x.info.NumPieces
	}
	if x.bitfield != nil {
		s.Bitfield = append([]byte{}, x.bitfield.Bytes()...)
	}
	for ip := range x.connectedPeerIPs {
		s.ConnectedIPs = append(s.ConnectedIPs, ip)
	}
	for ip := range x.bannedPeerIPs {
		s.BannedIPs = append(s.BannedIPs, ip)
	}
	for i := range x.pieces {
		s.PieceDone = append(s.PieceDone, x.pieces[i].Done)
		s.PieceWriting = append(s.PieceWriting, x.pieces[i].Writing)
	}
	return s
}

// VerifStats evaluates stats() directly (read-only apart from the seed-duration bookkeeping).
func (t *Torrent) VerifStats() Stats { return t.torrent.stats() }

// VerifSetTrackers installs scripted trackers (only while the torrent is stopped and quiescent).
func (t *Torrent) VerifSetTrackers(trs []tracker.Tracker) { t.torrent.trackers = trs }

// VerifInfoBytes returns the adopted info dictionary bytes (nil if no metadata).
func (t *Torrent) VerifInfoBytes() []byte {
	if t.torrent.info == nil {
		return nil
	}
	return t.torrent.info.Bytes
}

// VerifUpdateStats runs the session's periodic resume write once.
func (s *Session) VerifUpdateStats() { s.updateStats() }

// VerifInternal exposes the loop-owned torrent for in-package lab extensions.
func (t *Torrent) VerifInternal() any { return t.torrent }

// VerifResumeBitfield reads the bitfield persisted in the resume database for torrent id (nil if none).
func (s *Session) VerifResumeBitfield(id string) []byte {
	spec, err := s.resumer.Read(id)
	if err != nil || spec == nil {
		return nil
	}
	return spec.Bitfield
}

// ---- DHT configured on, without a live DHT node (C19). The node itself is never touched: s.dht stays nil.

// VerifFakeDHT makes the session behave as configured with DHT enabled (announcer creation, request set, reserved bit).
func (s *Session) VerifFakeDHT(on bool) {
	s.config.DHTEnabled = on
	if on {
		if s.dhtPeerRequests == nil {
			s.dhtPeerRequests = make(map[*torrent]struct{})
		}
		s.extensions[7] |= 0x01
	} else {
		s.extensions[7] &^= 0x01
	}
}

// VerifDHTRequested reports whether the torrent is in the session's DHT request set.
func (t *Torrent) VerifDHTRequested() bool {
	s := t.torrent.session
	s.mPeerRequests.Lock()
	defer s.mPeerRequests.Unlock()
	_, ok := s.dhtPeerRequests[t.torrent]
	return ok
}

func (t *Torrent) VerifHasDHTAnnouncer() bool { return t.torrent.dhtAnnouncer != nil }

// VerifInjectDHTPeers delivers a DHT lookup result the way processDHTResults does.
func (t *Torrent) VerifInjectDHTPeers(addrs []*net.TCPAddr) bool {
	select {
	case t.torrent.dhtPeersC <- addrs:
		return true
	default:
		return false
	}
}

// VerifLoadBlocklist loads CIDR rules into the session's blocklist.
func (s *Session) VerifLoadBlocklist(text string) error {
	_, err := s.blocklist.Reload(strings.NewReader(text))
	return err
}

// VerifWebseedURLs lists the web seed sources the torrent keeps.
func (t *Torrent) VerifWebseedURLs() []string {
	var out []string
	for _, s := range t.torrent.webseedSources {
		out = append(out, s.URL)
	}
	return out
}
